package simrt

import (
	"sync"
	"unsafe"
)

// Wrappers for package sync: a gate before every operation that can block, plus
// happens-before bookkeeping. Readiness of locks is probed with TryLock in scheduler
// context (every other task is parked, so the probe cannot interfere).

func MutexLock(site int32, m *sync.Mutex) {
	s := cur
	if s == nil {
		m.Lock()
		return
	}
	t := s.caller()
	s.park(gate{kind: gLock, site: site, obj: m})
	m.Lock()
	if s.cfg.HB {
		s.hbAcquire(t, s.mtxVC, uintptr(unsafe.Pointer(m)))
	}
}

func MutexTryLock(site int32, m *sync.Mutex) bool {
	s := cur
	if s == nil {
		return m.TryLock()
	}
	t := s.caller()
	s.park(gate{kind: gYield, site: site})
	ok := m.TryLock()
	if ok && s.cfg.HB {
		s.hbAcquire(t, s.mtxVC, uintptr(unsafe.Pointer(m)))
	}
	return ok
}

func MutexUnlock(site int32, m *sync.Mutex) {
	s := cur
	if s != nil && s.cfg.HB && !s.tearing {
		if t := s.caller(); t != nil {
			s.hbRelease(t, s.mtxVC, uintptr(unsafe.Pointer(m)))
		}
	}
	m.Unlock()
}

func RWLock(site int32, m *sync.RWMutex) {
	s := cur
	if s == nil {
		m.Lock()
		return
	}
	t := s.caller()
	s.park(gate{kind: gLock, site: site, obj: m})
	m.Lock()
	if s.cfg.HB {
		s.hbAcquire(t, s.mtxVC, uintptr(unsafe.Pointer(m)))
	}
}

func RWUnlock(site int32, m *sync.RWMutex) {
	s := cur
	if s != nil && s.cfg.HB && !s.tearing {
		if t := s.caller(); t != nil {
			s.hbRelease(t, s.mtxVC, uintptr(unsafe.Pointer(m)))
		}
	}
	m.Unlock()
}

func RWRLock(site int32, m *sync.RWMutex) {
	s := cur
	if s == nil {
		m.RLock()
		return
	}
	t := s.caller()
	s.park(gate{kind: gRLock, site: site, obj: m})
	m.RLock()
	if s.cfg.HB {
		s.hbAcquire(t, s.mtxVC, uintptr(unsafe.Pointer(m)))
	}
}

func RWRUnlock(site int32, m *sync.RWMutex) {
	s := cur
	if s != nil && s.cfg.HB && !s.tearing {
		if t := s.caller(); t != nil {
			// readers release into a separate clock that only writers acquire
			s.hbRelease(t, s.mtxVC, uintptr(unsafe.Pointer(m)))
		}
	}
	m.RUnlock()
}

func WGAdd(site int32, wg *sync.WaitGroup, n int) {
	s := cur
	if s != nil && !s.tearing {
		s.wgs[wg] += n
		if n < 0 && s.cfg.HB {
			if t := s.caller(); t != nil {
				s.hbRelease(t, s.mtxVC, uintptr(unsafe.Pointer(wg)))
			}
		}
	}
	wg.Add(n)
}

func WGDone(site int32, wg *sync.WaitGroup) { WGAdd(site, wg, -1) }

func WGWait(site int32, wg *sync.WaitGroup) {
	s := cur
	if s == nil {
		wg.Wait()
		return
	}
	t := s.caller()
	s.park(gate{kind: gWGWait, site: site, obj: wg})
	wg.Wait()
	if s.cfg.HB {
		s.hbAcquire(t, s.mtxVC, uintptr(unsafe.Pointer(wg)))
	}
}

func OnceDo(site int32, o *sync.Once, f func()) {
	s := cur
	if s == nil {
		o.Do(f)
		return
	}
	t := s.caller()
	s.park(gate{kind: gOnce, site: site, obj: o})
	if s.onces[o] == 2 {
		o.Do(f)
		if s.cfg.HB {
			t.vc = vcJoin(t.vc, s.onceVC[o])
		}
		return
	}
	s.onces[o] = 1
	defer func() {
		s.onces[o] = 2
		if s.cfg.HB && !s.tearing {
			s.onceVC[o] = vcCopy(t.vc)
			t.vc = vcTick(t.vc, t.ID)
		}
	}()
	o.Do(f)
}
