package simrt

import (
	"runtime"
	"sync"
	"unsafe"
)

// Wrappers for package sync: a gate before every operation that can block, plus
// happens-before bookkeeping. Readiness of locks is probed with TryLock in scheduler
// context (every other task is parked, so the probe cannot interfere).

func MutexLock(site int32, m *sync.Mutex) {
	s := cur
	if s == nil {
		m.Lock()
		return
	}
	t := s.caller()
	s.park(gate{kind: gLock, site: site, obj: m})
	m.Lock()
	if s.cfg.HB {
		s.hbAcquire(t, s.mtxVC, uintptr(unsafe.Pointer(m)))
	}
}

func MutexTryLock(site int32, m *sync.Mutex) bool {
	s := cur
	if s == nil {
		return m.TryLock()
	}
	t := s.caller()
	s.park(gate{kind: gYield, site: site})
	ok := m.TryLock()
	if ok && s.cfg.HB {
		s.hbAcquire(t, s.mtxVC, uintptr(unsafe.Pointer(m)))
	}
	return ok
}

func MutexUnlock(site int32, m *sync.Mutex) {
	s := cur
	if s != nil && s.tearing {
		// a deferred unlock of a task that was torn down while it did not hold the lock (inside
		// Cond.Wait, or after another task's deferred unlock released it): never fatal
		m.TryLock()
		m.Unlock()
		return
	}
	if s != nil && s.cfg.HB && !s.tearing {
		if t := s.caller(); t != nil {
			s.hbRelease(t, s.mtxVC, uintptr(unsafe.Pointer(m)))
		}
	}
	m.Unlock()
}

func RWLock(site int32, m *sync.RWMutex) {
	s := cur
	if s == nil {
		m.Lock()
		return
	}
	t := s.caller()
	s.park(gate{kind: gLock, site: site, obj: m})
	m.Lock()
	if s.cfg.HB {
		s.hbAcquire(t, s.mtxVC, uintptr(unsafe.Pointer(m)))
	}
}

func RWTryLock(site int32, m *sync.RWMutex) bool {
	s := cur
	if s == nil {
		return m.TryLock()
	}
	t := s.caller()
	s.park(gate{kind: gYield, site: site})
	ok := m.TryLock()
	if ok && s.cfg.HB {
		s.hbAcquire(t, s.mtxVC, uintptr(unsafe.Pointer(m)))
	}
	return ok
}

func RWTryRLock(site int32, m *sync.RWMutex) bool {
	s := cur
	if s == nil {
		return m.TryRLock()
	}
	t := s.caller()
	s.park(gate{kind: gYield, site: site})
	ok := m.TryRLock()
	if ok && s.cfg.HB {
		s.hbAcquire(t, s.mtxVC, uintptr(unsafe.Pointer(m)))
	}
	return ok
}

func RWUnlock(site int32, m *sync.RWMutex) {
	s := cur
	if s != nil && s.tearing {
		m.TryLock()
		m.Unlock()
		return
	}
	if s != nil && s.cfg.HB && !s.tearing {
		if t := s.caller(); t != nil {
			s.hbRelease(t, s.mtxVC, uintptr(unsafe.Pointer(m)))
		}
	}
	m.Unlock()
}

func RWRLock(site int32, m *sync.RWMutex) {
	s := cur
	if s == nil {
		m.RLock()
		return
	}
	t := s.caller()
	s.park(gate{kind: gRLock, site: site, obj: m})
	m.RLock()
	if s.cfg.HB {
		s.hbAcquire(t, s.mtxVC, uintptr(unsafe.Pointer(m)))
	}
}

func RWRUnlock(site int32, m *sync.RWMutex) {
	s := cur
	if s != nil && s.cfg.HB && !s.tearing {
		if t := s.caller(); t != nil {
			// readers release into a separate clock that only writers acquire
			s.hbRelease(t, s.mtxVC, uintptr(unsafe.Pointer(m)))
		}
	}
	m.RUnlock()
}

func WGAdd(site int32, wg *sync.WaitGroup, n int) {
	s := cur
	if s != nil && !s.tearing {
		s.wgs[wg] += n
		if n < 0 && s.cfg.HB {
			if t := s.caller(); t != nil {
				s.hbRelease(t, s.mtxVC, uintptr(unsafe.Pointer(wg)))
			}
		}
	}
	wg.Add(n)
}

func WGDone(site int32, wg *sync.WaitGroup) { WGAdd(site, wg, -1) }

func WGWait(site int32, wg *sync.WaitGroup) {
	s := cur
	if s == nil {
		wg.Wait()
		return
	}
	t := s.caller()
	s.park(gate{kind: gWGWait, site: site, obj: wg})
	wg.Wait()
	if s.cfg.HB {
		s.hbAcquire(t, s.mtxVC, uintptr(unsafe.Pointer(wg)))
	}
}

func OnceDo(site int32, o *sync.Once, f func()) {
	s := cur
	if s == nil {
		o.Do(f)
		return
	}
	t := s.caller()
	s.park(gate{kind: gOnce, site: site, obj: o})
	if s.onces[o] == 2 {
		o.Do(f)
		if s.cfg.HB {
			t.vc = vcJoin(t.vc, s.onceVC[o])
		}
		return
	}
	s.onces[o] = 1
	defer func() {
		if s.tearing {
			return
		}
		s.onces[o] = 2
		if s.cfg.HB && !s.tearing {
			s.onceVC[o] = vcCopy(t.vc)
			t.vc = vcTick(t.vc, t.ID)
		}
	}()
	o.Do(f)
}

// ---- sync.Cond ----
//
// The real condition variable's notify list is not used inside a simulation: waiters are kept
// by the simulator (FIFO, as the runtime does), Wait releases and re-acquires c.L through the
// lock wrappers, Signal/Broadcast hand their vector clock to the waiters they wake. Spurious
// wake-ups are not generated; a Signal without a waiter is lost, as in Go.

type condWaiter struct {
	t         *Task
	signalled bool
	vc        []uint32
}

func lockerUnlock(site int32, l sync.Locker) {
	switch m := l.(type) {
	case *sync.Mutex:
		MutexUnlock(site, m)
	case *sync.RWMutex:
		RWUnlock(site, m)
	default:
		l.Unlock()
	}
}

func lockerLock(site int32, l sync.Locker) {
	switch m := l.(type) {
	case *sync.Mutex:
		MutexLock(site, m)
	case *sync.RWMutex:
		RWLock(site, m)
	default:
		Unsupported("sync.Cond with a Locker that is neither *sync.Mutex nor *sync.RWMutex")
		l.Lock()
	}
}

func CondWait(site int32, c *sync.Cond) {
	s := cur
	if s == nil {
		c.Wait()
		return
	}
	t := s.caller()
	w := &condWaiter{t: t}
	if s.conds == nil {
		s.conds = map[*sync.Cond][]*condWaiter{}
	}
	s.conds[c] = append(s.conds[c], w)
	lockerUnlock(site, c.L)
	if m := s.parkRaw(t, gate{kind: gWait, site: site, cond: func() bool { return w.signalled }}); m.poison {
		// teardown while waiting: Wait returns with the lock held in Go, and callers defer the
		// unlock - take the lock (if it is free) before this goroutine ends
		runtime.Goexit()
	}
	if s.cfg.HB && w.vc != nil {
		t.vc = vcJoin(t.vc, w.vc)
	}
	lockerLock(site, c.L)
}

func (s *Sim) condWake(c *sync.Cond, all bool) {
	t := s.caller()
	ws := s.conds[c]
	n := 0
	for _, w := range ws {
		if w.signalled {
			continue
		}
		w.signalled = true
		if s.cfg.HB && t != nil {
			w.vc = vcCopy(t.vc)
		}
		n++
		if !all {
			break
		}
	}
	// drop woken waiters
	keep := ws[:0]
	for _, w := range ws {
		if !w.signalled {
			keep = append(keep, w)
		}
	}
	s.conds[c] = keep
	if n > 0 && s.cfg.HB && t != nil {
		t.vc = vcTick(t.vc, t.ID)
	}
}

func CondSignal(site int32, c *sync.Cond) {
	s := cur
	if s == nil {
		c.Signal()
		return
	}
	if s.tearing {
		return
	}
	s.condWake(c, false)
}

func CondBroadcast(site int32, c *sync.Cond) {
	s := cur
	if s == nil {
		c.Broadcast()
		return
	}
	if s.tearing {
		return
	}
	s.condWake(c, true)
}
