package simrt

import (
	"context"
	"sync/atomic"
	"time"
)

// Replacements for context.WithTimeout / context.WithDeadline: inside a simulation the
// deadline is a timer of the simulated clock that cancels an ordinary cancel context; Err()
// reports DeadlineExceeded when it was the timer that fired. Outside a simulation the standard
// functions are used.

type deadlineCtx struct {
	context.Context
	fired *atomic.Bool
	dl    time.Time
}

func (c deadlineCtx) Err() error {
	err := c.Context.Err()
	if err != nil && c.fired.Load() {
		return context.DeadlineExceeded
	}
	return err
}

func (c deadlineCtx) Deadline() (time.Time, bool) {
	if pd, ok := c.Context.Deadline(); ok && pd.Before(c.dl) {
		return pd, true
	}
	return c.dl, true
}

func CtxWithTimeout(parent context.Context, d time.Duration) (context.Context, context.CancelFunc) {
	s := cur
	if s == nil {
		return context.WithTimeout(parent, d)
	}
	inner, cancel := context.WithCancel(parent)
	fired := new(atomic.Bool)
	t := AfterFunc(d, func() {
		fired.Store(true)
		cancel()
	})
	return deadlineCtx{Context: inner, fired: fired, dl: Now().Add(d)}, func() {
		t.Stop()
		cancel()
	}
}

func CtxWithDeadline(parent context.Context, dl time.Time) (context.Context, context.CancelFunc) {
	if cur == nil {
		return context.WithDeadline(parent, dl)
	}
	return CtxWithTimeout(parent, dl.Sub(Now()))
}
