package simrt

// RNG is a small, self-contained PRNG (splitmix64 seeding a xoshiro256**), so that
// sequences do not depend on the Go release's math/rand.
type RNG struct{ s [4]uint64 }

func splitmix(x *uint64) uint64 {
	*x += 0x9e3779b97f4a7c15
	z := *x
	z = (z ^ (z >> 30)) * 0xbf58476d1ce4e5b9
	z = (z ^ (z >> 27)) * 0x94d049bb133111eb
	return z ^ (z >> 31)
}

// Mix derives a child seed from a parent seed and labels.
func Mix(seed uint64, labels ...uint64) uint64 {
	x := seed
	r := splitmix(&x)
	for _, l := range labels {
		x ^= l * 0xd6e8feb86659fd93
		r ^= splitmix(&x)
	}
	return r
}

// HashString is FNV-1a 64.
func HashString(s string) uint64 {
	h := uint64(14695981039346656037)
	for i := 0; i < len(s); i++ {
		h ^= uint64(s[i])
		h *= 1099511628211
	}
	return h
}

func NewRNG(seed uint64) *RNG {
	r := &RNG{}
	x := seed
	for i := range r.s {
		r.s[i] = splitmix(&x)
	}
	return r
}

func rotl(x uint64, k uint) uint64 { return (x << k) | (x >> (64 - k)) }

func (r *RNG) Uint64() uint64 {
	s := &r.s
	res := rotl(s[1]*5, 7) * 9
	t := s[1] << 17
	s[2] ^= s[0]
	s[3] ^= s[1]
	s[1] ^= s[2]
	s[0] ^= s[3]
	s[2] ^= t
	s[3] = rotl(s[3], 45)
	return res
}

// Intn returns a value in [0,n). n<=0 yields 0.
func (r *RNG) Intn(n int) int {
	if n <= 1 {
		return 0
	}
	return int(r.Uint64() % uint64(n))
}

// Range returns a value in [lo,hi] inclusive.
func (r *RNG) Range(lo, hi int) int {
	if hi <= lo {
		return lo
	}
	return lo + r.Intn(hi-lo+1)
}

func (r *RNG) Float() float64 { return float64(r.Uint64()>>11) / float64(1<<53) }

// Chance returns true with probability p.
func (r *RNG) Chance(p float64) bool { return r.Float() < p }

// Pick returns an index chosen according to integer weights.
func (r *RNG) Pick(weights ...int) int {
	tot := 0
	for _, w := range weights {
		tot += w
	}
	if tot <= 0 {
		return 0
	}
	x := r.Intn(tot)
	for i, w := range weights {
		if x < w {
			return i
		}
		x -= w
	}
	return len(weights) - 1
}

func (r *RNG) Bytes(n int) []byte {
	b := make([]byte, n)
	var x uint64
	for i := range b {
		if i%8 == 0 {
			x = r.Uint64()
		}
		b[i] = byte(x)
		x >>= 8
	}
	return b
}
