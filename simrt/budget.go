package simrt

import "runtime"

// Budget bounds the instrumented work of one decoder call: loop iterations + function
// entries (ticks) and bytes requested from instrumented make() calls.
type Budget struct {
	MaxTicks int64
	MaxAlloc int64
	Ticks    int64
	Alloc    int64
	Exceeded string // "", "ticks", "alloc"
	HotSite  int32  // site with most ticks in the sampling window after the bound was crossed
	// PanicOnExceed makes an overrun panic with BudgetExceeded even inside a simulation
	// (harness-driven decoder calls that are wrapped in recover); by default the task is
	// ended with runtime.Goexit, which code under test cannot swallow with recover.
	PanicOnExceed bool
	sample        map[int32]int
	sampleN       int
}

var tickOn bool
var globalBudget *Budget

// Arm installs b for the calling task (or globally outside a simulation).
func Arm(b *Budget) {
	b.HotSite = -1
	if s := cur; s != nil {
		if t := s.caller(); t != nil {
			t.budget = b
		}
	} else {
		globalBudget = b
	}
	tickOn = true
}

// Disarm removes the calling task's budget.
func Disarm() {
	if s := cur; s != nil {
		if t := s.caller(); t != nil {
			t.budget = nil
		}
	} else {
		globalBudget = nil
	}
}

func currentBudget() *Budget {
	if s := cur; s != nil {
		if t := s.caller(); t != nil {
			return t.budget
		}
		return nil
	}
	return globalBudget
}

// BudgetExceeded is the panic value used outside a simulation.
type BudgetExceeded struct{ B *Budget }

// Tick is inserted at every function entry, loop body and goto-target label.
func Tick(site int32) {
	if tickOn {
		tickSlow(site)
	}
}

func tickSlow(site int32) {
	b := currentBudget()
	if b == nil {
		return
	}
	SiteHits[site]++
	b.Ticks++
	if b.Ticks > b.MaxTicks {
		b.over(site, "ticks")
	}
}

const hotWindow = 2048

func (b *Budget) over(site int32, why string) {
	if b.Exceeded == "" {
		b.Exceeded = why
		b.sample = map[int32]int{}
	}
	if Sites[site].Kind != "func" || why == "alloc" {
		b.sample[site]++
	}
	b.sampleN++
	if b.sampleN < hotWindow && why == "ticks" {
		return
	}
	best, bestN := int32(-1), 0
	// deterministic arg-max: lowest site id wins ties (no map-order dependence)
	for s, n := range b.sample {
		if n > bestN || (n == bestN && s < best) {
			best, bestN = s, n
		}
	}
	b.HotSite = best
	if b.PanicOnExceed {
		Disarm()
		panic(BudgetExceeded{b})
	}
	if s := cur; s != nil {
		if t := s.caller(); t != nil {
			t.ExitKind = "budget"
			t.budget = nil
		}
		runtime.Goexit()
	}
	globalBudget = nil
	panic(BudgetExceeded{b})
}

type integer interface {
	~int | ~int8 | ~int16 | ~int32 | ~int64 | ~uint | ~uint8 | ~uint16 | ~uint32 | ~uint64 | ~uintptr
}

// AllocN accounts n*elem bytes for a make() whose size is not constant and returns n.
func AllocN[I integer](site int32, n I, elem int64) I {
	if tickOn {
		allocSlow(site, int64(n), elem)
	}
	return n
}

func allocSlow(site int32, n, elem int64) {
	b := currentBudget()
	if b == nil || n <= 0 {
		return
	}
	SiteHits[site]++
	b.Alloc += n * elem
	if b.Alloc > b.MaxAlloc {
		b.over(site, "alloc")
	}
}
