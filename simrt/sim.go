// Package simrt is the gate runtime of the deterministic simulator: real goroutines,
// parked at every synchronisation point, released one at a time by a seeded scheduler.
//
// Instrumented library code (see /verif/instr) calls into this package; while no
// simulation is active every wrapper degrades to the native operation.
package simrt

import (
	"fmt"
	"os"
	"reflect"
	"runtime"
	"runtime/debug"
	"strings"
	"sync"
	"sync/atomic"
	"time"
)

type gateKind uint8

const (
	gStart gateKind = iota
	gYield
	gSend
	gRecv
	gSelect
	gWait
	gLock
	gRLock
	gWGWait
	gOnce
	gShared
	gAtomic
)

var gateNames = [...]string{"start", "yield", "send", "recv", "select", "wait", "lock", "rlock", "wgwait", "once", "shared", "atomic"}

// Case is one arm of a rewritten select statement.
type Case struct {
	Ch   any
	Send bool
}

type gate struct {
	kind       gateKind
	site       int32
	ch         reflect.Value
	chp        uintptr
	cases      []selCase
	hasDefault bool
	cond       func() bool
	obj        any // mutex / waitgroup / once
	addr       uintptr
	write      bool
	arrival    bool // the scheduling point in front of a blocking operation on an unbuffered channel
}

type selCase struct {
	ch   reflect.Value
	chp  uintptr
	send bool
	nilc bool
}

type wakeMsg struct {
	arm    int
	poison bool
}

type taskState uint8

const (
	tsParked taskState = iota
	tsRunning
	tsExited
)

// Task is one simulated task (a real goroutine).
type Task struct {
	ID    int
	Class string
	Site  int32
	Name  string

	wake  chan wakeMsg
	done  chan struct{} // closed when the goroutine has finished (teardown waits for it)
	pend  gate
	state taskState
	goid  uint64
	sim   *Sim

	// result of the task
	Panicked  bool
	PanicVal  string
	PanicTop  string // top frame inside the module under test
	PanicStk  string
	ExitKind  string // "", "return", "panic", "goexit", "budget", "exitfunc"
	vc        []uint32
	budget    *Budget
	prio      int
	readyArms []int
	Steps     int
	gates     int
	inStall   bool

	// user data for harnesses
	Tag any

	// set when this task was released as the sending side of an unbuffered rendezvous
	pairedSend bool

	lastP struct {
		addr  uintptr
		clk   uint32
		write bool
	}
}

// PanicInfo describes an escaped panic.
type PanicInfo struct {
	Task  int
	Class string
	Val   string
	Top   string
	Stack string
	Step  int
}

// Decision is one scheduler decision.
type Decision struct {
	T int32 // task id
	A int16 // chosen select arm (-1 = default / not a select)
}

// Config configures one simulation run.
type Config struct {
	MaxSteps  int
	Strategy  Strategy
	Replay    []Decision // if non-nil, decisions are replayed (fallback: default policy)
	StepCost  func() time.Duration
	Record    bool // record the decision trace
	HB        bool // maintain vector clocks and race detection for shared accesses
	Classify  func(siteName string) string
	OnStep    func(s *Sim, released *Task)
	SharedPkg func(pkg string) bool // which packages' shared-access gates are scheduling points
	// Stall, when set, is asked at every gate (n counts the task's gates; arrival marks the point
	// in front of a blocking operation on an unbuffered channel) whether the goroutine is
	// descheduled there for some simulated time first: everything else runs, timers fire, the
	// clock moves, and this goroutine does not take part (a slow or stalled thread). Must be a
	// pure function of its arguments.
	Stall func(t *Task, n int, arrival bool) time.Duration
}

// Sim is one simulation.
type Sim struct {
	cfg             Config
	Tasks           []*Task
	running         *Task
	pair            [2]*Task
	yield           chan *Task
	now             int64
	seq             uint64
	timers          evHeap
	Steps           int
	Trace           []Decision
	Diverged        int // replay decisions that could not be followed
	EndKind         string
	Panics          []PanicInfo
	Exits           []string // process exits requested (log.Fatalf)
	GoroutineStalls int      // goroutines descheduled for simulated time at a gate (Config.Stall)
	ArrivalStalls   int      // ... of which in front of a blocking operation on an unbuffered channel
	Races           []Race
	Fail            string // machinery trouble (unsupported construct...)
	hash            uint64
	enabled         []*Task
	closed          map[uintptr]bool
	chans           map[uintptr]*chanHB
	stopReq         bool
	tearing         bool
	wg              sync.WaitGroup
	replayIx        int
	wgs             map[*sync.WaitGroup]int
	onces           map[*sync.Once]int // 1 running, 2 done
	onceVC          map[*sync.Once][]uint32
	locs            map[uintptr]*locState
	mtxVC           map[uintptr][]uint32
	atomVC          map[uintptr][]uint32
	sharedOn        []bool // per site
	conds           map[*sync.Cond][]*condWaiter
	live            []*Task // tasks that have not exited, in creation order
	events          uint64  // harness events folded in so far
	// periodic idling: the same configuration met again and again at clock jumps without any
	// harness-visible event in between (code that polls with time.After in a loop)
	idleCfg    uint64
	idleEvents uint64
	idleSeqs   [4]uint64
	idleRepeat int
	// PeriodicIdle: the run ended because the system only polled (see Run)
	PeriodicIdle bool
	// HBDisabled: clocks and race detection were switched off during the run (too many tasks)
	HBDisabled bool

	ClockJumps  int
	TimerFires  int
	SelectMulti int // selects released with >1 ready arm
	CtxSwitches int
	lastTask    *Task
}

var cur *Sim
var progress uint64

// Active reports whether a simulation is active.
func Active() bool { return cur != nil }

// Cur returns the active simulation.
func Cur() *Sim { return cur }

var epoch = time.Date(2020, 1, 1, 0, 0, 0, 0, time.UTC)

// New creates a simulation.
func New(cfg Config) *Sim {
	if cfg.MaxSteps == 0 {
		cfg.MaxSteps = 1 << 20
	}
	s := &Sim{cfg: cfg, yield: make(chan *Task, 4), closed: map[uintptr]bool{}, hash: 1469598103934665603}
	if cfg.HB {
		s.chans = map[uintptr]*chanHB{}
		s.locs = map[uintptr]*locState{}
		s.mtxVC = map[uintptr][]uint32{}
		s.atomVC = map[uintptr][]uint32{}
		s.onceVC = map[*sync.Once][]uint32{}
	}
	s.wgs = map[*sync.WaitGroup]int{}
	s.onces = map[*sync.Once]int{}
	s.conds = map[*sync.Cond][]*condWaiter{}
	if cfg.SharedPkg != nil {
		s.sharedOn = make([]bool, len(Sites))
		for i := range Sites {
			s.sharedOn[i] = cfg.SharedPkg(Sites[i].Pkg)
		}
	}
	return s
}

func (s *Sim) mix(vals ...uint64) {
	h := s.hash
	for _, v := range vals {
		h ^= v
		h *= 1099511628211
	}
	s.hash = h
}

// Hash is a digest of every scheduling decision and harness event so far.
func (s *Sim) Hash() uint64 { return s.hash }

// Event lets a harness fold an observable event into the run digest.
func (s *Sim) Event(vals ...uint64) { s.events++; s.mix(vals...) }

// Now returns simulated nanoseconds since the epoch.
func (s *Sim) NowNS() int64 { return s.now }

// Running returns the task that is currently released.
func (s *Sim) Running() *Task { return s.running }

// Stop asks the scheduler to end the run after the current step.
func (s *Sim) Stop(kind string) {
	if !s.stopReq {
		s.stopReq = true
		s.EndKind = kind
	}
}

func goid() uint64 {
	var buf [64]byte
	n := runtime.Stack(buf[:], false)
	// "goroutine 123 ["
	var id uint64
	for i := len("goroutine "); i < n; i++ {
		c := buf[i]
		if c < '0' || c > '9' {
			break
		}
		id = id*10 + uint64(c-'0')
	}
	return id
}

func (s *Sim) newTask(site int32, class string, name string, f func()) *Task {
	t := &Task{ID: len(s.Tasks), Class: class, Site: site, Name: name, wake: make(chan wakeMsg, 1), done: make(chan struct{}), sim: s}
	t.pend = gate{kind: gStart, site: site}
	t.state = tsParked
	if s.cfg.HB {
		t.vc = make([]uint32, t.ID+1)
		if p := s.running; p != nil {
			copy(t.vc, p.vc)
			p.vc = vcTick(p.vc, p.ID)
		}
		t.vc[t.ID] = 1
	}
	s.Tasks = append(s.Tasks, t)
	s.live = append(s.live, t)
	if s.cfg.HB && len(s.Tasks) > maxHBTasks {
		// vector clocks grow with the number of tasks ever created (a goroutine per message in a
		// long run): beyond this point clocks are no longer maintained and races no longer
		// detected in this run; every other oracle is unaffected
		s.cfg.HB = false
		s.HBDisabled = true
	}
	if st, ok := s.cfg.Strategy.(taskAware); ok {
		st.OnNewTask(s, t)
	}
	s.wg.Add(1)
	go t.main(f)
	return t
}

func (t *Task) main(f func()) {
	s := t.sim
	defer s.wg.Done()
	defer close(t.done)
	t.goid = goid()
	m := <-t.wake
	if m.poison {
		t.state = tsExited
		t.ExitKind = "poison"
		return
	}
	normal := false
	defer func() {
		if s.tearing {
			t.state = tsExited
			return
		}
		if !normal {
			if r := recover(); r != nil {
				t.Panicked = true
				t.PanicVal = panicString(r)
				t.PanicStk = string(debug.Stack())
				t.PanicTop = topFrame(t.PanicStk)
				if t.ExitKind == "" {
					t.ExitKind = "panic"
				}
				s.Panics = append(s.Panics, PanicInfo{Task: t.ID, Class: t.Class, Val: t.PanicVal, Top: t.PanicTop, Stack: t.PanicStk, Step: s.Steps})
				s.mix(0x70616e6963, uint64(t.ID))
			} else if t.ExitKind == "" {
				t.ExitKind = "goexit"
			}
		}
		t.state = tsExited
		s.yield <- t
	}()
	f()
	normal = true
	t.ExitKind = "return"
}

func panicString(r any) string {
	switch v := r.(type) {
	case error:
		return v.Error()
	case string:
		return v
	case fmt.Stringer:
		return v.String()
	}
	return fmt.Sprintf("%v", r)
}

// ModulePrefix is the import-path prefix of the code under test (set by the harness).
var ModulePrefix = "github.com/contiv/libOpenflow/"

// topFrame extracts the first function of the module under test (not simrt, not the
// harness) from a debug.Stack() dump.
func topFrame(stk string) string {
	lines := strings.Split(stk, "\n")
	for _, l := range lines {
		if strings.HasPrefix(l, "\t") || l == "" {
			continue
		}
		if !strings.HasPrefix(l, ModulePrefix) {
			continue
		}
		rest := l[len(ModulePrefix):]
		if strings.HasPrefix(rest, "simrt.") || strings.HasPrefix(rest, "cmd/") || strings.HasPrefix(rest, "simrt/") {
			continue
		}
		// strip argument list
		if i := strings.LastIndex(rest, "("); i > 0 {
			rest = rest[:i]
		}
		return rest
	}
	return ""
}

// TopFrame names the innermost function of the module under test on the current stack
// (called from a deferred function while panicking, that is where the panic was raised).
func TopFrame() string { return topFrame(string(debug.Stack())) }

// Go starts f as a new simulated task (or a plain goroutine outside a simulation).
// ForeignGo counts goroutines that instrumented code started while no simulation was active:
// they live outside every later simulation and the simulator cannot decide when they run.
var ForeignGo int

func Go(site int32, f func()) {
	s := cur
	if s == nil {
		ForeignGo++
		go f()
		return
	}
	name := ""
	if int(site) < len(Sites) && site >= 0 {
		name = Sites[site].Name
	}
	class := "other"
	if s.cfg.Classify != nil {
		class = s.cfg.Classify(name)
	}
	s.newTask(site, class, name, f)
}

// Spawn starts a harness task with an explicit class.
func (s *Sim) Spawn(class string, f func()) *Task {
	return s.newTask(-1, class, class, f)
}

// caller identifies the task calling into the runtime.
func (s *Sim) caller() *Task {
	if s.pair[0] != nil {
		g := goid()
		if s.pair[0].goid == g {
			return s.pair[0]
		}
		if s.pair[1].goid == g {
			return s.pair[1]
		}
	}
	return s.running
}

// park parks the calling task at gate g and returns when the scheduler releases it.
func (s *Sim) park(g gate) wakeMsg {
	if s.tearing {
		// a deferred function of a task that is being torn down reached a gate
		runtime.Goexit()
	}
	t := s.caller()
	if t == nil {
		panic("simrt: gate called outside any simulated task")
	}
	if f := s.cfg.Stall; f != nil && g.kind != gWait && !t.inStall {
		t.gates++
		if d := f(t, t.gates, g.arrival); d > 0 {
			s.GoroutineStalls++
			if g.arrival {
				s.ArrivalStalls++
			}
			t.inStall = true
			over := false
			s.At(d, func() { over = true })
			m := s.parkRaw(t, gate{kind: gWait, site: -1, cond: func() bool { return over }})
			t.inStall = false
			if m.poison {
				runtime.Goexit()
			}
		}
	}
	m := s.parkRaw(t, g)
	if m.poison {
		runtime.Goexit()
	}
	return m
}

// parkRaw parks without ending the goroutine on teardown: the caller decides what has to be
// put in order before it exits (CondWait re-acquires its lock so that deferred unlocks balance).
func (s *Sim) parkRaw(t *Task, g gate) wakeMsg {
	t.pend = g
	t.state = tsParked
	s.yield <- t
	return <-t.wake
}

// Yield is an always-ready scheduling point.
func Yield() {
	if s := cur; s != nil {
		s.park(gate{kind: gYield, site: -1})
	}
}

// WaitUntil parks the calling task until cond() is true (cond must be a pure read of
// state that only changes in scheduler context or in other tasks' steps).
func WaitUntil(cond func() bool) {
	s := cur
	if s == nil {
		panic("simrt.WaitUntil outside simulation")
	}
	s.park(gate{kind: gWait, site: -1, cond: cond})
}

func chanPtr(v reflect.Value) uintptr { return v.Pointer() }

func (s *Sim) recvReady(v reflect.Value, p uintptr) bool {
	if !v.IsValid() || v.IsNil() {
		return false
	}
	if v.Len() > 0 {
		return true
	}
	if s.closed[p] {
		return true
	}
	return false
}

func (s *Sim) sendReady(v reflect.Value, p uintptr) bool {
	if !v.IsValid() || v.IsNil() {
		return false
	}
	if s.closed[p] {
		return true // native send panics, as in production
	}
	return v.Len() < v.Cap()
}

// ready reports whether task t's pending gate can proceed; for selects it fills t.readyArms.
func (s *Sim) ready(t *Task) bool {
	g := &t.pend
	switch g.kind {
	case gStart, gYield, gShared, gAtomic:
		return true
	case gSend:
		if g.ch.IsValid() && !g.ch.IsNil() && g.ch.Cap() == 0 && !s.closed[g.chp] {
			p, _ := s.partnerFor(t, g.chp, true)
			return p != nil
		}
		return s.sendReady(g.ch, g.chp)
	case gRecv:
		if g.ch.IsValid() && !g.ch.IsNil() && g.ch.Cap() == 0 && !s.closed[g.chp] {
			p, _ := s.partnerFor(t, g.chp, false)
			return p != nil
		}
		return s.recvReady(g.ch, g.chp)
	case gSelect:
		t.readyArms = t.readyArms[:0]
		for i := range g.cases {
			c := &g.cases[i]
			if c.nilc {
				continue
			}
			ok := false
			if c.ch.Cap() == 0 && !s.closed[c.chp] {
				p, _ := s.partnerFor(t, c.chp, c.send)
				ok = p != nil
			} else if c.send {
				ok = s.sendReady(c.ch, c.chp)
			} else {
				ok = s.recvReady(c.ch, c.chp)
			}
			if ok {
				t.readyArms = append(t.readyArms, i)
			}
		}
		return len(t.readyArms) > 0 || g.hasDefault
	case gWait:
		return g.cond()
	case gLock:
		m := g.obj.(interface {
			TryLock() bool
			Unlock()
		})
		if m.TryLock() {
			m.Unlock()
			return true
		}
		return false
	case gRLock:
		m := g.obj.(*sync.RWMutex)
		if m.TryRLock() {
			m.RUnlock()
			return true
		}
		return false
	case gWGWait:
		return s.wgs[g.obj.(*sync.WaitGroup)] <= 0
	case gOnce:
		return s.onces[g.obj.(*sync.Once)] != 1
	}
	return false
}

// partnerFor finds a parked task that can rendezvous with t on unbuffered channel p;
// parm is the partner's select arm (-1 for a plain send/receive gate).
func (s *Sim) partnerFor(t *Task, p uintptr, tSends bool) (partner *Task, parm int) {
	for _, o := range s.live {
		if o == t || o.state != tsParked {
			continue
		}
		g := &o.pend
		switch g.kind {
		case gRecv:
			if tSends && g.chp == p {
				return o, -1
			}
		case gSend:
			if !tSends && g.chp == p {
				return o, -1
			}
		case gSelect:
			// a select with a default never blocks: it is nobody's waiting partner (two
			// non-blocking operations on an unbuffered channel never meet)
			if g.hasDefault {
				continue
			}
			for i := range g.cases {
				c := &g.cases[i]
				if !c.nilc && c.chp == p && c.send != tSends {
					return o, i
				}
			}
		}
	}
	return nil, -1
}

// olderEventPending reports whether a live timer event armed at or before sequence number seq is
// still in the heap.
func (s *Sim) olderEventPending(seq uint64) bool {
	for _, ev := range s.timers {
		if !ev.dead && ev.seq <= seq {
			return true
		}
	}
	return false
}

// configHash digests where every live task is parked and how full the channels they wait on are.
func (s *Sim) configHash() uint64 {
	h := uint64(1469598103934665603)
	mix := func(v uint64) { h ^= v; h *= 1099511628211 }
	for _, t := range s.live {
		if t.state == tsExited {
			continue
		}
		mix(uint64(t.ID))
		mix(uint64(t.pend.kind))
		mix(uint64(uint32(t.pend.site)))
		switch t.pend.kind {
		case gSend, gRecv:
			if t.pend.ch.IsValid() && !t.pend.ch.IsNil() {
				mix(uint64(t.pend.ch.Len()))
			}
		case gSelect:
			for i := range t.pend.cases {
				if c := &t.pend.cases[i]; !c.nilc {
					mix(uint64(c.ch.Len()))
				}
			}
		}
	}
	return h
}

// probeForeignCloses looks, when nothing is enabled, for channels that were closed by code
// the instrumenter does not see (a context's cancel function, a standard-library goroutine):
// for every parked receiver on an empty channel a non-blocking reflect receive is attempted.
// It cannot take a value away from instrumented code (every instrumented sender is parked in
// front of its send) and reports ok=false with a valid zero value exactly when the channel is
// closed. Returns true if a closed channel was discovered.
func (s *Sim) probeForeignCloses() bool {
	found := false
	probe := func(v reflect.Value, p uintptr) {
		if !v.IsValid() || v.IsNil() || s.closed[p] || v.Len() > 0 {
			return
		}
		if v.Type().ChanDir()&reflect.RecvDir == 0 {
			return
		}
		if x, ok := v.TryRecv(); x.IsValid() && !ok {
			s.closed[p] = true
			found = true
		}
	}
	for _, t := range s.live {
		if t.state != tsParked {
			continue
		}
		switch t.pend.kind {
		case gRecv:
			probe(t.pend.ch, t.pend.chp)
		case gSelect:
			for i := range t.pend.cases {
				if c := &t.pend.cases[i]; !c.send && !c.nilc {
					probe(c.ch, c.chp)
				}
			}
		}
	}
	return found
}

const maxHBTasks = 4096

func (s *Sim) computeEnabled() []*Task {
	en := s.enabled[:0]
	live := s.live[:0]
	for _, t := range s.live {
		if t.state == tsExited {
			continue // exited tasks leave the scan list (ids stay valid in s.Tasks)
		}
		live = append(live, t)
		if t.state == tsParked && s.ready(t) {
			en = append(en, t)
		}
	}
	for i := len(live); i < len(s.live); i++ {
		s.live[i] = nil
	}
	s.live = live
	s.enabled = en
	return en
}

// Result summarises a finished run.
type Result struct {
	EndKind string // "quiescent", "stepcap", "stopped", "fail"
	Steps   int
	Hash    uint64
}

// Run executes main as task 0 and schedules until quiescence, the step cap or Stop.
func (s *Sim) Run(main func()) Result {
	if cur != nil {
		panic("simrt: nested simulation")
	}
	cur = s
	defer func() { cur = nil }()
	s.newTask(-1, "main", "main", main)
	for {
		atomic.AddUint64(&progress, 1)
		if s.stopReq || s.Fail != "" {
			if s.Fail != "" {
				s.EndKind = "fail"
			}
			break
		}
		s.fireDue()
		en := s.computeEnabled()
		if len(en) == 0 {
			if s.probeForeignCloses() {
				continue
			}
			// Nothing is enabled. If timers keep waking tasks that do nothing observable and
			// fall back into the very same configuration (a polling loop around time.After, a
			// retry timer), the system is as idle as it will ever be: quiescent.
			cfgH := s.configHash()
			if cfgH == s.idleCfg && s.events == s.idleEvents {
				s.idleRepeat++
			} else {
				s.idleCfg, s.idleEvents, s.idleRepeat = cfgH, s.events, 0
			}
			// ... unless a timer that was not armed by the last few turns of that loop is still
			// pending (a pause of the workload, a stalled peer, a long timeout of the code under
			// test): when it fires something new happens, the run is not over. idleSeqs holds
			// the timer sequence numbers seen at the last four idle moments.
			older := s.olderEventPending(s.idleSeqs[0])
			copy(s.idleSeqs[:], s.idleSeqs[1:])
			s.idleSeqs[len(s.idleSeqs)-1] = s.seq
			if s.idleRepeat >= 24 && !older {
				s.EndKind = "quiescent"
				s.PeriodicIdle = true
				break
			}
			if s.advanceClock() {
				continue
			}
			s.EndKind = "quiescent"
			break
		}
		if s.Steps >= s.cfg.MaxSteps {
			if s.idleRepeat >= 24 {
				// the step budget ran out while the system was only cycling through a polling
				// loop, waiting for a far-away timer: idle, not stuck
				s.EndKind = "quiescent"
				s.PeriodicIdle = true
				break
			}
			s.EndKind = "stepcap"
			break
		}
		t, arm := s.decide(en)
		s.Steps++
		t.Steps++
		if s.cfg.StepCost != nil {
			s.now += int64(s.cfg.StepCost())
		}
		if t != s.lastTask {
			s.CtxSwitches++
			s.lastTask = t
		}
		s.mix(uint64(t.ID), uint64(t.pend.kind), uint64(uint32(t.pend.site)), uint64(uint16(arm)))
		n := s.release(t, arm)
		for i := 0; i < n; i++ {
			<-s.yield
		}
		s.running = nil
		s.pair[0], s.pair[1] = nil, nil
		if s.cfg.OnStep != nil {
			s.cfg.OnStep(s, t)
		}
	}
	s.teardown()
	return Result{EndKind: s.EndKind, Steps: s.Steps, Hash: s.hash}
}

func (s *Sim) decide(en []*Task) (*Task, int) {
	var t *Task
	arm := -1
	if s.cfg.Replay != nil {
		if s.replayIx < len(s.cfg.Replay) {
			d := s.cfg.Replay[s.replayIx]
			s.replayIx++
			for _, e := range en {
				if int32(e.ID) == d.T {
					t = e
					break
				}
			}
			if t != nil && t.pend.kind == gSelect {
				ok := false
				for _, a := range t.readyArms {
					if a == int(d.A) {
						ok = true
					}
				}
				if ok {
					arm = int(d.A)
				} else if len(t.readyArms) > 0 {
					arm = t.readyArms[0]
					s.Diverged++
				}
			}
		}
		if t == nil {
			s.Diverged++
			// default policy: keep running the current task, else lowest id
			for _, e := range en {
				if e == s.lastTask {
					t = e
				}
			}
			if t == nil {
				t = en[0]
			}
			if t.pend.kind == gSelect && len(t.readyArms) > 0 {
				arm = t.readyArms[0]
			}
		}
	} else {
		t = s.cfg.Strategy.Pick(s, en)
		if t.pend.kind == gSelect && len(t.readyArms) > 0 {
			if len(t.readyArms) > 1 {
				s.SelectMulti++
			}
			arm = s.cfg.Strategy.PickArm(s, t, t.readyArms)
		}
	}
	if s.cfg.Record {
		s.Trace = append(s.Trace, Decision{T: int32(t.ID), A: int16(arm)})
	}
	return t, arm
}

// release wakes t (and, for an unbuffered rendezvous, its partner); returns how many
// tasks were released.
func (s *Sim) release(t *Task, arm int) int {
	g := &t.pend
	var partner *Task
	parm := -1
	switch g.kind {
	case gSend:
		if g.ch.Cap() == 0 && !s.closed[g.chp] {
			partner, parm = s.partnerFor(t, g.chp, true)
		}
		if s.cfg.HB {
			s.hbSend(t, g.ch, g.chp, partner)
		}
	case gRecv:
		if g.ch.Cap() == 0 && !s.closed[g.chp] {
			partner, parm = s.partnerFor(t, g.chp, false)
		}
		if s.cfg.HB {
			s.hbRecv(t, g.ch, g.chp, partner)
		}
	case gSelect:
		if arm >= 0 {
			c := &g.cases[arm]
			if c.ch.Cap() == 0 && !s.closed[c.chp] {
				partner, parm = s.partnerFor(t, c.chp, c.send)
			}
			if s.cfg.HB {
				if c.send {
					s.hbSend(t, c.ch, c.chp, partner)
				} else {
					s.hbRecv(t, c.ch, c.chp, partner)
				}
			}
		}
	case gOnce:
		// state updated by OnceDo itself
	}
	t.state = tsRunning
	s.running = t
	if partner != nil {
		// which side sends? it parks again right after the native send (AfterSend), so that the
		// two segments after the rendezvous do not run in parallel
		sender := partner
		switch g.kind {
		case gSend:
			sender = t
		case gSelect:
			if arm >= 0 && g.cases[arm].send {
				sender = t
			}
		}
		sender.pairedSend = true
		partner.state = tsRunning
		s.pair[0], s.pair[1] = t, partner
		partner.wake <- wakeMsg{arm: parm}
		t.wake <- wakeMsg{arm: arm}
		return 2
	}
	t.wake <- wakeMsg{arm: arm}
	return 1
}

func (s *Sim) teardown() {
	s.tearing = true
	// One task at a time: a poisoned task runs its deferred functions (unlocks, closes, sends)
	// while it ends; doing that for all tasks in parallel lets those deferred functions race with
	// each other in ways the code under test never allows.
	for _, t := range s.Tasks {
		if t.state == tsExited {
			continue
		}
		t.wake <- wakeMsg{poison: true}
		select {
		case <-t.done:
		case <-time.After(20 * time.Second):
			fmt.Fprintf(os.Stderr, "simrt: teardown timed out waiting for task %d (%s)\n", t.ID, t.Class)
			dumpAndExit()
		}
	}
	done := make(chan struct{})
	go func() { s.wg.Wait(); close(done) }()
	select {
	case <-done:
	case <-time.After(20 * time.Second):
		fmt.Fprintf(os.Stderr, "simrt: teardown timed out\n")
		dumpAndExit()
	}
}

func dumpAndExit() {
	buf := make([]byte, 1<<20)
	n := runtime.Stack(buf, true)
	os.Stderr.Write(buf[:n])
	os.Exit(2)
}

// StartWatchdog exits the process with status 2 when the scheduler makes no progress
// for d of real time (a released task blocked on something the simulator does not gate).
func StartWatchdog(d time.Duration) {
	go func() {
		last := atomic.LoadUint64(&progress)
		lastChange := time.Now()
		for {
			time.Sleep(500 * time.Millisecond)
			p := atomic.LoadUint64(&progress)
			if p != last {
				last = p
				lastChange = time.Now()
				continue
			}
			if cur != nil && time.Since(lastChange) > d {
				fmt.Fprintf(os.Stderr, "simrt: WATCHDOG: no scheduler progress for %v (step %d)\n", d, cur.Steps)
				dumpAndExit()
			}
			if cur == nil && atomic.LoadInt32(&busy) != 0 && time.Since(lastChange) > d {
				fmt.Fprintf(os.Stderr, "simrt: WATCHDOG: library code executed outside a simulation (sequential reference / profiling) made no progress for %v - blocked on something only a simulated task could provide?\n", d)
				dumpAndExit()
			}
			if cur == nil && atomic.LoadInt32(&busy) == 0 {
				lastChange = time.Now()
			}
		}
	}()
}

var busy int32

// SetBusy tells the watchdog that the harness is executing library code outside a simulation
// (call Progress regularly while busy).
func SetBusy(b bool) {
	v := int32(0)
	if b {
		v = 1
	}
	atomic.StoreInt32(&busy, v)
	atomic.AddUint64(&progress, 1)
}

// Progress lets long harness computations outside the scheduler keep the watchdog quiet.
func Progress() { atomic.AddUint64(&progress, 1) }

// ---- channel gates ----

// BeforeSend parks until a send on ch cannot block.
func BeforeSend(site int32, ch any) {
	s := cur
	if s == nil {
		return
	}
	v := reflect.ValueOf(ch)
	var p uintptr
	if v.IsValid() && !v.IsNil() {
		p = v.Pointer()
	}
	s.arrive(site, v)
	s.park(gate{kind: gSend, site: site, ch: v, chp: p})
}

// arrive is the scheduling point in front of a blocking operation on an UNBUFFERED channel: a
// task parked at a send/receive/select gate counts as blocked in that operation (a partner for
// the other side, visible to a non-blocking select), and a goroutine that has not reached the
// operation yet is not. Without this point the window "about to block, but not blocked yet" -
// in which another goroutine's non-blocking send or receive finds nobody and gives up (the
// classic lost wake-up) - would not exist in the simulation. Buffered channels need none: what
// others can observe there is the buffer, not who waits.
func (s *Sim) arrive(site int32, v reflect.Value) {
	if s.tearing || !v.IsValid() || v.IsNil() || v.Cap() != 0 {
		return
	}
	s.park(gate{kind: gYield, site: site, arrival: true})
}

// AfterSend follows every instrumented send. After an unbuffered rendezvous the sender parks
// here at an always-ready gate: the receiver's segment runs alone until its next gate, the
// sender's continues when the scheduler picks it (any interleaving Go allows, but serialised).
func AfterSend(site int32) {
	s := cur
	if s == nil || s.tearing {
		return
	}
	t := s.caller()
	if t == nil || !t.pairedSend {
		return
	}
	t.pairedSend = false
	s.park(gate{kind: gYield, site: site})
}

// RC parks until a receive from ch cannot block, then returns ch.
func RC[C any](site int32, ch C) C {
	s := cur
	if s == nil {
		return ch
	}
	v := reflect.ValueOf(ch)
	var p uintptr
	if v.IsValid() && !v.IsNil() {
		p = v.Pointer()
	}
	s.arrive(site, v)
	s.park(gate{kind: gRecv, site: site, ch: v, chp: p})
	return ch
}

// LC is a scheduling point immediately before len(ch) is observed (blocked senders and
// receivers of the real runtime may have moved data in the meantime).
func LC[C any](site int32, ch C) C {
	if s := cur; s != nil && !s.tearing {
		s.park(gate{kind: gYield, site: site})
	}
	return ch
}

// CL records that ch is being closed and returns it.
func CL[C any](site int32, ch C) C {
	s := cur
	if s == nil || s.tearing {
		// (during teardown the poisoned tasks run their deferred functions in parallel: no
		// simulator state may be touched any more)
		return ch
	}
	v := reflect.ValueOf(ch)
	if v.IsValid() && !v.IsNil() {
		p := v.Pointer()
		s.closed[p] = true
		if s.cfg.HB {
			if t := s.caller(); t != nil {
				s.hbClose(t, p)
			}
		}
	}
	return ch
}

// Select parks until one arm is ready (or there is a default) and returns the arm chosen
// by the scheduler; -1 means default.
func Select(site int32, hasDefault bool, cases ...Case) int {
	s := cur
	if s == nil {
		panic("simrt: instrumented select executed outside a simulation")
	}
	g := gate{kind: gSelect, site: site, hasDefault: hasDefault, cases: make([]selCase, len(cases))}
	for i, c := range cases {
		v := reflect.ValueOf(c.Ch)
		sc := selCase{ch: v, send: c.Send}
		if !v.IsValid() || v.IsNil() {
			sc.nilc = true
		} else {
			sc.chp = v.Pointer()
		}
		g.cases[i] = sc
	}
	if !hasDefault {
		for i := range g.cases {
			if c := &g.cases[i]; !c.nilc && c.ch.Cap() == 0 {
				s.arrive(site, c.ch)
				break
			}
		}
	}
	m := s.park(g)
	return m.arm
}

// NoteClosed lets a harness declare a channel closed by uninstrumented code.
func NoteClosed(ch any) {
	if s := cur; s != nil && !s.tearing {
		v := reflect.ValueOf(ch)
		if v.IsValid() && !v.IsNil() {
			s.closed[v.Pointer()] = true
		}
	}
}

// Unsupported aborts the run as machinery trouble.
func Unsupported(msg string) {
	if s := cur; s != nil {
		if s.Fail == "" {
			s.Fail = msg
		}
		return
	}
	panic("simrt: unsupported: " + msg)
}

// CloseCh closes ch (used for deferred closes, so that the record is made at close time).
func CloseCh[T any](site int32, ch chan<- T) {
	close(CL(site, ch))
}

// PendKind names the gate the task is parked at ("exited" when it has finished).
func (t *Task) PendKind() string {
	if t.state == tsExited {
		return "exited"
	}
	return gateNames[t.pend.kind]
}

// PendSite is the site id of the gate the task is parked at.
func (t *Task) PendSite() int32 { return t.pend.site }

// Exited reports whether the task has finished.
func (t *Task) Exited() bool { return t.state == tsExited }

// Live returns the tasks that have not exited yet (creation order).
func (s *Sim) Live() []*Task { return s.live }

// EnabledCount returns how many tasks were enabled at the last decision.
func (s *Sim) EnabledCount() int { return len(s.enabled) }
