package simrt

import "unsafe"

var sharedOn bool

// EnableShared switches the shared-access gates on or off process-wide (they are still
// filtered per run by Config.SharedPkg).
func EnableShared(on bool) { sharedOn = on }

// R marks a read of shared variable *p (a scheduling point immediately before it).
func R[T any](site int32, p *T) *T {
	if sharedOn {
		sharedSlow(site, uintptr(unsafe.Pointer(p)), 0)
	}
	return p
}

// RN is a scheduling point in front of a use of *p that is NOT recorded for the race detector
// (array- and struct-typed variables: the use touches one element or field only).
func RN[T any](site int32, p *T) *T {
	if sharedOn {
		sharedSlow(site, uintptr(unsafe.Pointer(p)), 4)
	}
	return p
}

// W marks a write.
func W[T any](site int32, p *T) *T {
	if sharedOn {
		sharedSlow(site, uintptr(unsafe.Pointer(p)), 1)
	}
	return p
}

// A marks an atomic read-modify-write or store on *p.
func A[T any](site int32, p *T) *T {
	if sharedOn {
		sharedSlow(site, uintptr(unsafe.Pointer(p)), 2)
	}
	return p
}

// AV marks an atomic read-modify-write or store on *p and returns v unchanged. The
// instrumenter wraps the LAST argument of the atomic call with it, so that the scheduling
// point sits immediately before the atomic operation itself - after every other operand
// (which may contain atomic loads of its own, as in x.CompareAndSwap(old, old.next.Load()))
// has been evaluated.
func AV[P any, T any](site int32, p *P, v T) T {
	if sharedOn {
		sharedSlow(site, uintptr(unsafe.Pointer(p)), 2)
	}
	return v
}

// AL marks an atomic load.
func AL[T any](site int32, p *T) *T {
	if sharedOn {
		sharedSlow(site, uintptr(unsafe.Pointer(p)), 3)
	}
	return p
}

// Profiling makes the shared-access wrappers count their executions (SiteHits) outside a
// simulation: a harness uses it to learn, sequentially, which operations touch which shared
// library state.
var Profiling bool

func sharedSlow(site int32, addr uintptr, mode int) {
	s := cur
	if s == nil {
		if Profiling {
			SiteHits[site]++
		}
		return
	}
	if s.tearing {
		return
	}
	if s.sharedOn != nil && int(site) < len(s.sharedOn) && !s.sharedOn[site] {
		return
	}
	t := s.caller()
	if t == nil {
		return
	}
	SiteHits[site]++
	k := gShared
	if mode >= 2 {
		k = gAtomic
	}
	s.park(gate{kind: k, site: site, addr: addr, write: mode == 1 || mode == 2})
	if !s.cfg.HB {
		return
	}
	switch mode {
	case 4:
		// scheduling point only
	case 0:
		s.recordAccess(t, addr, site, false)
	case 1:
		s.recordAccess(t, addr, site, true)
	case 2:
		s.hbAcquire(t, s.atomVC, addr)
		s.recordAccessA(t, addr, site, true, true)
		s.hbRelease(t, s.atomVC, addr)
	case 3:
		s.hbAcquire(t, s.atomVC, addr)
		s.recordAccessA(t, addr, site, false, true)
	}
}

// P records a method call on the shared object *p for the happens-before race detector.
// It is NOT a scheduling point: races are judged on the happens-before relation, not on
// the interleaving that happened to be executed. write=false means a read-only method.
func P[T any](site int32, p *T, write bool) *T {
	if sharedOn {
		pSlow(site, uintptr(unsafe.Pointer(p)), write)
	}
	return p
}

func pSlow(site int32, addr uintptr, write bool) {
	s := cur
	if s == nil {
		if Profiling {
			SiteHits[site]++
		}
		return
	}
	if !s.cfg.HB || s.tearing || addr == 0 {
		return
	}
	if s.sharedOn != nil && int(site) < len(s.sharedOn) && !s.sharedOn[site] {
		return
	}
	t := s.caller()
	if t == nil {
		return
	}
	clk := t.vc[t.ID]
	if t.lastP.addr == addr && t.lastP.clk == clk && (t.lastP.write || !write) {
		return
	}
	t.lastP.addr, t.lastP.clk, t.lastP.write = addr, clk, write
	SiteHits[site]++
	s.recordAccess(t, addr, site, write)
}

// SyncObj marks an operation on a synchronising library object (sync.Pool, sync.Map):
// modelled as an acquire+release on the object, which over-approximates happens-before
// (it can hide a race, never invent one).
func SyncObj[T any](site int32, p *T) *T {
	if sharedOn && cur == nil && Profiling {
		SiteHits[site]++
	}
	if sharedOn {
		if s := cur; s != nil && s.cfg.HB && !s.tearing {
			if t := s.caller(); t != nil {
				k := uintptr(unsafe.Pointer(p))
				s.hbAcquire(t, s.mtxVC, k)
				s.hbRelease(t, s.mtxVC, k)
			}
		}
	}
	return p
}

// HBRelease / HBAcquire let harness stubs (e.g. the simulated connection) contribute
// the happens-before edges their real counterparts provide.
func HBRelease(key uintptr) {
	if s := cur; s != nil && s.cfg.HB && !s.tearing {
		if t := s.caller(); t != nil {
			s.hbRelease(t, s.mtxVC, key)
		}
	}
}

func HBAcquire(key uintptr) {
	if s := cur; s != nil && s.cfg.HB && !s.tearing {
		if t := s.caller(); t != nil {
			s.hbAcquire(t, s.mtxVC, key)
		}
	}
}
