package simrt

import "unsafe"

var sharedOn bool

// EnableShared switches the shared-access gates on or off process-wide (they are still
// filtered per run by Config.SharedPkg).
func EnableShared(on bool) { sharedOn = on }

// R marks a read of shared variable *p (a scheduling point immediately before it).
func R[T any](site int32, p *T) *T {
	if sharedOn {
		sharedSlow(site, uintptr(unsafe.Pointer(p)), 0)
	}
	return p
}

// W marks a write.
func W[T any](site int32, p *T) *T {
	if sharedOn {
		sharedSlow(site, uintptr(unsafe.Pointer(p)), 1)
	}
	return p
}

// A marks an atomic read-modify-write or store on *p.
func A[T any](site int32, p *T) *T {
	if sharedOn {
		sharedSlow(site, uintptr(unsafe.Pointer(p)), 2)
	}
	return p
}

// AL marks an atomic load.
func AL[T any](site int32, p *T) *T {
	if sharedOn {
		sharedSlow(site, uintptr(unsafe.Pointer(p)), 3)
	}
	return p
}

func sharedSlow(site int32, addr uintptr, mode int) {
	s := cur
	if s == nil || s.tearing {
		return
	}
	if s.sharedOn != nil && int(site) < len(s.sharedOn) && !s.sharedOn[site] {
		return
	}
	t := s.caller()
	if t == nil {
		return
	}
	SiteHits[site]++
	k := gShared
	if mode >= 2 {
		k = gAtomic
	}
	s.park(gate{kind: k, site: site, addr: addr, write: mode == 1 || mode == 2})
	if !s.cfg.HB {
		return
	}
	switch mode {
	case 0:
		s.recordAccess(t, addr, site, false)
	case 1:
		s.recordAccess(t, addr, site, true)
	case 2:
		s.hbAcquire(t, s.atomVC, addr)
		s.recordAccess(t, addr, site, true)
		s.hbRelease(t, s.atomVC, addr)
	case 3:
		s.hbAcquire(t, s.atomVC, addr)
		s.recordAccess(t, addr, site, false)
	}
}
