package simrt

// Strategy chooses the next task and select arm. Implementations must draw only from
// the RNG they were given.
type Strategy interface {
	Pick(s *Sim, enabled []*Task) *Task
	PickArm(s *Sim, t *Task, ready []int) int
}

type taskAware interface {
	OnNewTask(s *Sim, t *Task)
}

// StrategySpec is the serialisable description of a strategy (part of a scenario).
type StrategySpec struct {
	Kind    string   `json:"kind"`              // uniform | sticky | pct | starve
	P       float64  `json:"p,omitempty"`       // sticky: probability of staying
	Depth   int      `json:"depth,omitempty"`   // pct: number of priority change points
	Horizon int      `json:"horizon,omitempty"` // pct: expected number of steps
	Class   string   `json:"class,omitempty"`   // starve: task class
	Windows [][2]int `json:"windows,omitempty"` // starve: step windows
	Arm     string   `json:"arm,omitempty"`     // uniform | first | last
	Seed    uint64   `json:"seed"`
}

// Build creates the strategy described by the spec.
func (sp StrategySpec) Build() Strategy {
	r := NewRNG(sp.Seed)
	b := base{rng: r, arm: sp.Arm}
	switch sp.Kind {
	case "sticky":
		return &sticky{base: b, p: sp.P}
	case "pct":
		st := &pct{base: b}
		h := sp.Horizon
		if h < 1 {
			h = 1
		}
		for i := 0; i < sp.Depth; i++ {
			st.points = append(st.points, r.Intn(h))
		}
		return st
	case "starve":
		return &starve{base: b, class: sp.Class, windows: sp.Windows}
	}
	return &uniform{base: b}
}

type base struct {
	rng *RNG
	arm string
}

func (b *base) PickArm(s *Sim, t *Task, ready []int) int {
	if len(ready) == 1 {
		return ready[0]
	}
	switch b.arm {
	case "first":
		if b.rng.Chance(0.9) {
			return ready[0]
		}
	case "last":
		if b.rng.Chance(0.9) {
			return ready[len(ready)-1]
		}
	}
	return ready[b.rng.Intn(len(ready))]
}

type uniform struct{ base }

func (u *uniform) Pick(s *Sim, en []*Task) *Task { return en[u.rng.Intn(len(en))] }

type sticky struct {
	base
	p float64
}

func (st *sticky) Pick(s *Sim, en []*Task) *Task {
	if s.lastTask != nil && st.rng.Chance(st.p) {
		for _, t := range en {
			if t == s.lastTask {
				return t
			}
		}
	}
	return en[st.rng.Intn(len(en))]
}

// pct: probabilistic concurrency testing (Burckhardt et al.): random priorities, d change points.
type pct struct {
	base
	points []int
	low    int
}

func (p *pct) OnNewTask(s *Sim, t *Task) {
	t.prio = 1000 + p.rng.Intn(1<<20)
}

func (p *pct) Pick(s *Sim, en []*Task) *Task {
	pick := func() *Task {
		best := en[0]
		for _, t := range en[1:] {
			if t.prio > best.prio {
				best = t
			}
		}
		return best
	}
	best := pick()
	for _, pt := range p.points {
		if pt == s.Steps {
			p.low++
			best.prio = 1000 - p.low
			best = pick()
		}
	}
	return best
}

// starve strategy: one class gets (almost) no steps inside the given windows; otherwise uniform.
type starve struct {
	base
	class   string
	windows [][2]int
}

func (st *starve) Pick(s *Sim, en []*Task) *Task {
	in := false
	for _, w := range st.windows {
		if s.Steps >= w[0] && s.Steps < w[1] {
			in = true
			break
		}
	}
	if in {
		n := 0
		for _, t := range en {
			if t.Class != st.class {
				n++
			}
		}
		if n > 0 && !st.rng.Chance(0.002) {
			k := st.rng.Intn(n)
			for _, t := range en {
				if t.Class != st.class {
					if k == 0 {
						return t
					}
					k--
				}
			}
		}
	}
	return en[st.rng.Intn(len(en))]
}
