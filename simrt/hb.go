package simrt

import (
	"fmt"
	"reflect"
)

// Happens-before tracking (vector clocks) and a race detector over instrumented
// shared locations. Only maintained when Config.HB is set.

func vcTick(vc []uint32, id int) []uint32 {
	for len(vc) <= id {
		vc = append(vc, 0)
	}
	vc[id]++
	return vc
}

func vcJoin(dst, src []uint32) []uint32 {
	for len(dst) < len(src) {
		dst = append(dst, 0)
	}
	for i, v := range src {
		if v > dst[i] {
			dst[i] = v
		}
	}
	return dst
}

func vcCopy(src []uint32) []uint32 {
	c := make([]uint32, len(src))
	copy(c, src)
	return c
}

// vcLE reports whether epoch (id,clk) happens-before-or-equals vc.
func epochLE(id int, clk uint32, vc []uint32) bool {
	if id < len(vc) {
		return clk <= vc[id]
	}
	return clk == 0
}

type chanHB struct {
	sendVCs [][]uint32 // clocks of buffered, not yet received messages (FIFO)
	recvVCs [][]uint32 // clocks of completed receives, FIFO, for the cap-th later send
	sends   int
	closeVC []uint32
}

func (s *Sim) chanHBFor(p uintptr) *chanHB {
	c := s.chans[p]
	if c == nil {
		c = &chanHB{}
		s.chans[p] = c
	}
	return c
}

func (s *Sim) hbSend(t *Task, ch reflect.Value, p uintptr, partner *Task) {
	if partner != nil {
		// rendezvous: both directions
		j := vcJoin(vcCopy(t.vc), partner.vc)
		t.vc = vcTick(vcCopy(j), t.ID)
		partner.vc = vcTick(j, partner.ID)
		return
	}
	if s.closed[p] {
		return
	}
	c := s.chanHBFor(p)
	capn := ch.Cap()
	// k-th receive happens before the (k+cap)-th send completes
	if capn > 0 && c.sends >= capn {
		ix := c.sends - capn
		if ix < len(c.recvVCs) && c.recvVCs[ix] != nil {
			t.vc = vcJoin(t.vc, c.recvVCs[ix])
			c.recvVCs[ix] = nil
		}
	}
	c.sends++
	c.sendVCs = append(c.sendVCs, vcCopy(t.vc))
	t.vc = vcTick(t.vc, t.ID)
}

func (s *Sim) hbRecv(t *Task, ch reflect.Value, p uintptr, partner *Task) {
	if partner != nil {
		s.hbSend(partner, ch, p, t)
		return
	}
	c := s.chanHBFor(p)
	if len(c.sendVCs) > 0 && ch.Len() > 0 {
		t.vc = vcJoin(t.vc, c.sendVCs[0])
		c.sendVCs = c.sendVCs[1:]
	} else if c.closeVC != nil {
		t.vc = vcJoin(t.vc, c.closeVC)
	}
	c.recvVCs = append(c.recvVCs, vcCopy(t.vc))
	t.vc = vcTick(t.vc, t.ID)
}

func (s *Sim) hbClose(t *Task, p uintptr) {
	c := s.chanHBFor(p)
	c.closeVC = vcCopy(t.vc)
	t.vc = vcTick(t.vc, t.ID)
}

func (s *Sim) hbAcquire(t *Task, m map[uintptr][]uint32, key uintptr) {
	if v := m[key]; v != nil {
		t.vc = vcJoin(t.vc, v)
	}
}

func (s *Sim) hbRelease(t *Task, m map[uintptr][]uint32, key uintptr) {
	m[key] = vcJoin(m[key], t.vc)
	t.vc = vcTick(t.vc, t.ID)
}

// ---- race detection on instrumented locations ----

type access struct {
	task int
	clk  uint32
	site int32
}

type accSet struct {
	lastWrite access
	hasWrite  bool
	reads     []access // reads since the last write (one per task)
}

// locState keeps plain and atomic accesses apart: two atomic accesses never race with each
// other (sync/atomic operations are sequentially consistent synchronisation), a plain access
// races with any conflicting access, plain or atomic, that is not ordered by happens-before.
type locState struct {
	plain accSet
	atom  accSet
}

// Race is one reported conflict.
type Race struct {
	Addr  uintptr
	Kind  string // "write-write", "read-write", "write-read"
	SiteA int32
	SiteB int32
	TaskA int
	TaskB int
	Step  int
}

func (r Race) String() string {
	return fmt.Sprintf("%s race between task %d at %s and task %d at %s", r.Kind, r.TaskA, SiteName(r.SiteA), r.TaskB, SiteName(r.SiteB))
}

func (s *Sim) recordAccess(t *Task, addr uintptr, site int32, write bool) {
	s.recordAccessA(t, addr, site, write, false)
}

func (s *Sim) recordAccessA(t *Task, addr uintptr, site int32, write, atomic bool) {
	l := s.locs[addr]
	if l == nil {
		l = &locState{}
		s.locs[addr] = l
	}
	me := access{task: t.ID, clk: t.vc[t.ID], site: site}
	check := func(set *accSet) {
		if set.hasWrite && set.lastWrite.task != t.ID && !epochLE(set.lastWrite.task, set.lastWrite.clk, t.vc) {
			k := "write-read"
			if write {
				k = "write-write"
			}
			s.addRace(Race{Addr: addr, Kind: k, SiteA: set.lastWrite.site, SiteB: site, TaskA: set.lastWrite.task, TaskB: t.ID, Step: s.Steps})
		}
		if write {
			for _, r := range set.reads {
				if r.task != t.ID && !epochLE(r.task, r.clk, t.vc) {
					s.addRace(Race{Addr: addr, Kind: "read-write", SiteA: r.site, SiteB: site, TaskA: r.task, TaskB: t.ID, Step: s.Steps})
				}
			}
		}
	}
	check(&l.plain)
	if !atomic {
		check(&l.atom)
	}
	own := &l.plain
	if atomic {
		own = &l.atom
	}
	if write {
		own.reads = own.reads[:0]
		if !atomic {
			l.atom.reads = l.atom.reads[:0]
		}
		own.lastWrite = me
		own.hasWrite = true
		return
	}
	for i := range own.reads {
		if own.reads[i].task == t.ID {
			own.reads[i] = me
			return
		}
	}
	own.reads = append(own.reads, me)
}

func (s *Sim) addRace(r Race) {
	if len(s.Races) < 16 {
		s.Races = append(s.Races, r)
	}
}
