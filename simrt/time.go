package simrt

import (
	"container/heap"
	"sort"
	"time"
)

type event struct {
	at     int64
	seq    uint64
	fn     func()
	ticker *Ticker
	dead   bool
}

type evHeap []*event

func (h evHeap) Len() int { return len(h) }
func (h evHeap) Less(i, j int) bool {
	if h[i].at != h[j].at {
		return h[i].at < h[j].at
	}
	return h[i].seq < h[j].seq
}
func (h evHeap) Swap(i, j int) { h[i], h[j] = h[j], h[i] }
func (h *evHeap) Push(x any)   { *h = append(*h, x.(*event)) }
func (h *evHeap) Pop() any {
	o := *h
	n := len(o)
	x := o[n-1]
	*h = o[:n-1]
	return x
}

// At schedules fn to run in scheduler context at simulated time now+d.
func (s *Sim) At(d time.Duration, fn func()) *event {
	s.seq++
	ev := &event{at: s.now + int64(d), seq: s.seq, fn: fn}
	heap.Push(&s.timers, ev)
	return ev
}

// PendingTimes returns the distinct due times (ns of simulated time, ascending) of the live
// timer events that lie in the future. A harness uses it to make something happen at the very
// instant a timer of the code under test fires, without knowing the timer's duration.
func (s *Sim) PendingTimes() []int64 {
	var out []int64
	for _, ev := range s.timers {
		if ev.dead || ev.at <= s.now {
			continue
		}
		out = append(out, ev.at)
	}
	sort.Slice(out, func(i, j int) bool { return out[i] < out[j] })
	k := 0
	for i, v := range out {
		if i == 0 || v != out[i-1] {
			out[k] = v
			k++
		}
	}
	return out[:k]
}

func (s *Sim) fireDue() {
	for len(s.timers) > 0 && s.timers[0].at <= s.now {
		ev := heap.Pop(&s.timers).(*event)
		if ev.dead {
			continue
		}
		s.TimerFires++
		ev.fn()
	}
}

func (s *Sim) anyEnabled() bool {
	for _, t := range s.live {
		if t.state == tsParked && s.ready(t) {
			return true
		}
	}
	return false
}

// advanceClock jumps to the next timer event when no task is enabled. It returns false
// when the run is quiescent: no events, or only periodic tickers whose firing keeps
// enabling nothing.
func (s *Sim) advanceClock() bool {
	for len(s.timers) > 0 {
		idle := true
		for _, ev := range s.timers {
			if ev.dead {
				continue
			}
			if ev.ticker == nil || ev.ticker.fruitless < 2 {
				idle = false
				break
			}
		}
		if idle {
			return false
		}
		ev := heap.Pop(&s.timers).(*event)
		if ev.dead {
			continue
		}
		if ev.at > s.now {
			s.now = ev.at
			s.ClockJumps++
		}
		s.TimerFires++
		s.mix(0x74696d65, uint64(ev.at))
		ev.fn()
		if s.anyEnabled() {
			if ev.ticker != nil {
				ev.ticker.fruitless = 0
			}
			return true
		}
		if ev.ticker != nil {
			ev.ticker.fruitless++
		}
	}
	return false
}

// ---- replacements for package time ----

func Now() time.Time {
	if s := cur; s != nil {
		return epoch.Add(time.Duration(s.now))
	}
	return time.Now()
}

func Since(t time.Time) time.Duration { return Now().Sub(t) }
func Until(t time.Time) time.Duration { return t.Sub(Now()) }

func Sleep(d time.Duration) {
	s := cur
	if s == nil {
		time.Sleep(d)
		return
	}
	if t := s.caller(); t != nil && t.Site < 0 && t.Class != "afterfunc" && t.Class != "main" {
		// a task of the harness (workload, application, peer) going to sleep is an event of the
		// run: the idling that follows is a pause of the workload, not the end of it
		s.events++
	}
	done := false
	s.At(d, func() { done = true })
	s.park(gate{kind: gWait, site: -1, cond: func() bool { return done }})
}

// Timer mirrors time.Timer.
type Timer struct {
	C    <-chan time.Time
	c    chan time.Time
	real *time.Timer
	ev   *event
	sim  *Sim
	f    func()
}

// Ticker mirrors time.Ticker.
type Ticker struct {
	C         <-chan time.Time
	c         chan time.Time
	real      *time.Ticker
	ev        *event
	sim       *Sim
	d         time.Duration
	fruitless int
	stopped   bool
}

func NewTimer(d time.Duration) *Timer {
	s := cur
	if s == nil {
		r := time.NewTimer(d)
		return &Timer{C: r.C, real: r}
	}
	t := &Timer{c: make(chan time.Time, 1), sim: s}
	t.C = t.c
	t.arm(d)
	return t
}

func (t *Timer) arm(d time.Duration) {
	s := t.sim
	t.ev = s.At(d, func() {
		t.ev = nil
		if t.f != nil {
			f := t.f
			s.newTask(-1, "afterfunc", "afterfunc", f)
			return
		}
		select {
		case t.c <- epoch.Add(time.Duration(s.now)):
		default:
		}
	})
}

func (t *Timer) Stop() bool {
	if t.real != nil {
		return t.real.Stop()
	}
	if t.ev != nil {
		t.ev.dead = true
		t.ev = nil
		return true
	}
	return false
}

func (t *Timer) Reset(d time.Duration) bool {
	if t.real != nil {
		return t.real.Reset(d)
	}
	active := t.Stop()
	t.arm(d)
	return active
}

func AfterFunc(d time.Duration, f func()) *Timer {
	s := cur
	if s == nil {
		r := time.AfterFunc(d, f)
		return &Timer{real: r}
	}
	t := &Timer{sim: s, f: f}
	t.arm(d)
	return t
}

func After(d time.Duration) <-chan time.Time {
	if cur == nil {
		return time.After(d)
	}
	return NewTimer(d).C
}

func NewTicker(d time.Duration) *Ticker {
	s := cur
	if s == nil {
		r := time.NewTicker(d)
		return &Ticker{C: r.C, real: r}
	}
	if d <= 0 {
		panic("non-positive interval for NewTicker")
	}
	t := &Ticker{c: make(chan time.Time, 1), sim: s, d: d}
	t.C = t.c
	t.arm()
	return t
}

func (t *Ticker) arm() {
	s := t.sim
	t.ev = s.At(t.d, func() {
		if t.stopped {
			return
		}
		select {
		case t.c <- epoch.Add(time.Duration(s.now)):
		default:
		}
		t.arm()
	})
	t.ev.ticker = t
}

func (t *Ticker) Stop() {
	if t.real != nil {
		t.real.Stop()
		return
	}
	t.stopped = true
	if t.ev != nil {
		t.ev.dead = true
	}
}

func (t *Ticker) Reset(d time.Duration) {
	if t.real != nil {
		t.real.Reset(d)
		return
	}
	t.Stop()
	t.stopped = false
	t.d = d
	t.fruitless = 0
	t.arm()
}

// TimeTick mirrors time.Tick.
func TimeTick(d time.Duration) <-chan time.Time {
	if cur == nil {
		return time.Tick(d)
	}
	if d <= 0 {
		return nil
	}
	return NewTicker(d).C
}
