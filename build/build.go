// Package build assembles the instrumented scratch copy of /repo and builds the harnesses.
package build

import (
	"bytes"
	"fmt"
	"io"
	"io/fs"
	"os"
	"os/exec"
	"path/filepath"
	"strings"

	"verif/instr"
)

const defaultMod = "github.com/contiv/libOpenflow"

// Env is the offline Go environment used for every go invocation.
func Env() []string {
	return append(os.Environ(), "GOFLAGS=-mod=mod", "GOPROXY=off", "GOSUMDB=off", "GOTOOLCHAIN=local", "CGO_ENABLED=0")
}

func copyTree(src, dst string, skip func(rel string, d fs.DirEntry) bool) error {
	return filepath.WalkDir(src, func(p string, d fs.DirEntry, err error) error {
		if err != nil {
			return err
		}
		rel, _ := filepath.Rel(src, p)
		if rel == "." {
			return os.MkdirAll(dst, 0o755)
		}
		if skip != nil && skip(rel, d) {
			if d.IsDir() {
				return filepath.SkipDir
			}
			return nil
		}
		to := filepath.Join(dst, rel)
		if d.IsDir() {
			return os.MkdirAll(to, 0o755)
		}
		if !d.Type().IsRegular() {
			return nil
		}
		in, err := os.Open(p)
		if err != nil {
			return err
		}
		defer in.Close()
		out, err := os.Create(to)
		if err != nil {
			return err
		}
		defer out.Close()
		_, err = io.Copy(out, in)
		return err
	})
}

// copyGo copies .go sources of a harness directory, rewriting the module path if needed.
func copyGo(src, dst, modPath string) error {
	if err := os.MkdirAll(dst, 0o755); err != nil {
		return err
	}
	ents, err := os.ReadDir(src)
	if err != nil {
		return err
	}
	for _, e := range ents {
		if e.IsDir() || !strings.HasSuffix(e.Name(), ".go") || strings.HasSuffix(e.Name(), "_test.go") {
			continue
		}
		if skip := os.Getenv("VERIF_DEV_SKIP_FILES"); skip != "" && strings.Contains(","+skip+",", ","+e.Name()+",") {
			continue // development aid only: leave half-written sources out of the build
		}
		b, err := os.ReadFile(filepath.Join(src, e.Name()))
		if err != nil {
			return err
		}
		if modPath != defaultMod {
			b = bytes.ReplaceAll(b, []byte(`"`+defaultMod+`/`), []byte(`"`+modPath+`/`))
		}
		if err := os.WriteFile(filepath.Join(dst, e.Name()), b, 0o644); err != nil {
			return err
		}
	}
	return nil
}

// CopySimrt adds the gate runtime and the generated site table to an instrumented module.
func CopySimrt(verif, dir string, rep *instr.Report) error {
	if err := copyGo(filepath.Join(verif, "simrt"), filepath.Join(dir, "simrt"), rep.ModPath); err != nil {
		return err
	}
	return rep.WriteSiteTable(filepath.Join(dir, "simrt", "zz_sites.go"))
}

// Result of Prepare.
type Result struct {
	Scratch string
	ModPath string
	Report  *instr.Report
	Bins    map[string]string
}

// Prepare copies repo to scratch, instruments it, adds simrt and the harnesses and builds them.
func Prepare(repo, verif, scratch string, harnesses []string, logw io.Writer) (*Result, error) {
	if err := os.RemoveAll(scratch); err != nil {
		return nil, err
	}
	if err := copyTree(repo, scratch, func(rel string, d fs.DirEntry) bool { return rel == ".git" }); err != nil {
		return nil, fmt.Errorf("copy tree: %w", err)
	}
	// a pre-existing simrt/cmd/h* in the tree would collide with ours
	for _, p := range []string{"simrt", "cmd/hstream", "cmd/hconc", "cmd/hlib"} {
		os.RemoveAll(filepath.Join(scratch, p))
	}
	// simrt must exist before instrumented packages are type-checked again at build time,
	// but the instrumenter itself loads the un-instrumented tree, which does not import it.
	rep, err := instr.Run(scratch)
	if err != nil {
		return nil, fmt.Errorf("instrument: %w", err)
	}
	if len(rep.Unsupported) > 0 {
		return nil, fmt.Errorf("instrumenter met constructs it does not model:\n  %s", strings.Join(rep.Unsupported, "\n  "))
	}
	if err := copyGo(filepath.Join(verif, "simrt"), filepath.Join(scratch, "simrt"), rep.ModPath); err != nil {
		return nil, err
	}
	if err := rep.WriteSiteTable(filepath.Join(scratch, "simrt", "zz_sites.go")); err != nil {
		return nil, err
	}
	if err := copyGo(filepath.Join(verif, "harness", "hlib"), filepath.Join(scratch, "cmd", "hlib"), rep.ModPath); err != nil {
		return nil, err
	}
	// generated helper in package common: lets a harness start every run from the same value of
	// the process-wide id counter (replay determinism). Generated for the shapes the counter can
	// reasonably take; for anything else the helper is a no-op and runs simply continue counting.
	if b, err := os.ReadFile(filepath.Join(scratch, "common", "header.go")); err == nil {
		set, get, imp := "", "return 0", ""
		switch {
		case bytes.Contains(b, []byte("var messageXid uint32")):
			imp = "import \"sync/atomic\"\n\n"
			set, get = "atomic.StoreUint32(&messageXid, v)", "return atomic.LoadUint32(&messageXid)"
		case bytes.Contains(b, []byte("var messageXid atomic.Uint32")):
			set, get = "messageXid.Store(v)", "return messageXid.Load()"
		}
		gen := "//go:build verif\n\npackage common\n\n" + imp + "// VerifSetXid resets the process-wide transaction id counter (replay determinism).\nfunc VerifSetXid(v uint32) { " + set + " }\n\n// VerifGetXid reads it.\nfunc VerifGetXid() uint32 { " + get + " }\n"
		os.WriteFile(filepath.Join(scratch, "common", "zz_verif.go"), []byte(gen), 0o644)
	}
	res := &Result{Scratch: scratch, ModPath: rep.ModPath, Report: rep, Bins: map[string]string{}}
	for _, h := range harnesses {
		if err := copyGo(filepath.Join(verif, "harness", h), filepath.Join(scratch, "cmd", h), rep.ModPath); err != nil {
			return nil, err
		}
		bin := filepath.Join(scratch, "bin-"+h)
		cmd := exec.Command("go", "build", "-tags", "verif", "-o", bin, "./cmd/"+h)
		cmd.Dir = scratch
		cmd.Env = Env()
		out, err := cmd.CombinedOutput()
		if err != nil {
			return nil, fmt.Errorf("build of instrumented tree failed (harness %s):\n%s", h, out)
		}
		res.Bins[h] = bin
	}
	fmt.Fprintf(logw, "instrumented %d files, %d sites (%v)\n", rep.Files, len(rep.Sites), rep.Counts)
	return res, nil
}
