// stgen generates random, schedule-confluent concurrent Go programs (goroutines, buffered and
// unbuffered channels, select, close, range, mutex, waitgroup, atomics, sleeps) for the
// differential self-test of the instrumenter and the gate runtime: executed natively and under
// the simulator with many seeds they must produce the same outcome string.
package selftestgen

import (
	"fmt"
	"math/rand"
	"os"
	"path/filepath"
	"strings"
)

type gen struct {
	r *rand.Rand
	b strings.Builder
}

func (g *gen) p(format string, a ...any) { fmt.Fprintf(&g.b, format+"\n", a...) }

func (g *gen) prog(n int) {
	r := g.r
	nch := 1 + r.Intn(3)
	caps := make([]int, nch)
	prods := make([]int, nch)
	msgs := make([]int, nch)
	for i := range caps {
		caps[i] = []int{0, 0, 1, 2, 5}[r.Intn(5)]
		prods[i] = 1 + r.Intn(3)
		msgs[i] = r.Intn(7)
	}
	g.p("func Prog%d() string {", n)
	g.p("\tvar wg sync.WaitGroup")
	g.p("\tvar mu sync.Mutex")
	g.p("\tvar acount int64")
	g.p("\tsum, cnt, tries := 0, 0, 0")
	g.p("\t_ = tries")
	for i := 0; i < nch; i++ {
		g.p("\tc%d := make(chan int, %d)", i, caps[i])
		g.p("\tvar pw%d sync.WaitGroup", i)
	}
	// producers
	for i := 0; i < nch; i++ {
		g.p("\tfor p := 0; p < %d; p++ {", prods[i])
		g.p("\t\tpw%d.Add(1)", i)
		g.p("\t\tgo func(p int) {")
		g.p("\t\t\tdefer pw%d.Done()", i)
		g.p("\t\t\tfor k := 0; k < %d; k++ {", msgs[i])
		switch r.Intn(4) {
		case 0:
			g.p("\t\t\t\ttime.Sleep(time.Duration(p+1) * time.Millisecond)")
		case 1:
			g.p("\t\t\t\tatomic.AddInt64(&acount, 1)")
		}
		if r.Intn(3) == 0 {
			// send through a select with a single send arm (no default): still a plain send
			g.p("\t\t\t\tselect {")
			g.p("\t\t\t\tcase c%d <- %d + p*100 + k:", i, 1000*(i+1))
			g.p("\t\t\t\t}")
		} else {
			g.p("\t\t\t\tc%d <- %d + p*100 + k", i, 1000*(i+1))
		}
		g.p("\t\t\t}")
		g.p("\t\t}(p)")
		g.p("\t}")
		// closer
		if r.Intn(2) == 0 {
			g.p("\tgo func() { pw%d.Wait(); close(c%d) }()", i, i)
		} else {
			g.p("\tgo func() {")
			g.p("\t\tdefer close(c%d)", i)
			g.p("\t\tpw%d.Wait()", i)
			g.p("\t}()")
		}
	}
	add := func(ind string) {
		g.p("%smu.Lock()", ind)
		g.p("%ssum += v", ind)
		g.p("%scnt++", ind)
		g.p("%smu.Unlock()", ind)
	}
	// consumers
	style := r.Intn(4)
	if nch == 1 && style == 2 {
		style = r.Intn(2)
	}
	switch style {
	case 0: // one or two range consumers per channel
		for i := 0; i < nch; i++ {
			k := 1 + r.Intn(2)
			g.p("\tfor q := 0; q < %d; q++ {", k)
			g.p("\t\twg.Add(1)")
			g.p("\t\tgo func() {")
			g.p("\t\t\tdefer wg.Done()")
			if r.Intn(2) == 0 {
				g.p("\t\t\tfor v := range c%d {", i)
				add("\t\t\t\t")
				g.p("\t\t\t}")
			} else {
				g.p("\t\t\tfor {")
				g.p("\t\t\t\tv, ok := <-c%d", i)
				g.p("\t\t\t\tif !ok {")
				g.p("\t\t\t\t\treturn")
				g.p("\t\t\t\t}")
				add("\t\t\t\t")
				g.p("\t\t\t}")
			}
			g.p("\t\t}()")
			g.p("\t}")
		}
	case 1: // pipeline: stage forwards every channel into an output channel, closed when all inputs closed
		g.p("\tout := make(chan int, %d)", r.Intn(3))
		g.p("\tvar fw sync.WaitGroup")
		for i := 0; i < nch; i++ {
			g.p("\tfw.Add(1)")
			g.p("\tgo func() {")
			g.p("\t\tdefer fw.Done()")
			g.p("\t\tfor v := range c%d {", i)
			g.p("\t\t\tout <- v * 2")
			g.p("\t\t}")
			g.p("\t}()")
		}
		g.p("\tgo func() { fw.Wait(); close(out) }()")
		g.p("\twg.Add(1)")
		g.p("\tgo func() {")
		g.p("\t\tdefer wg.Done()")
		g.p("\tloop:")
		g.p("\t\tfor {")
		g.p("\t\t\tselect {")
		g.p("\t\t\tcase v, ok := <-out:")
		g.p("\t\t\t\tif !ok {")
		g.p("\t\t\t\t\tbreak loop")
		g.p("\t\t\t\t}")
		add("\t\t\t\t")
		if r.Intn(2) == 0 {
			g.p("\t\t\tdefault:")
			g.p("\t\t\t\ttries++")
			g.p("\t\t\t\ttime.Sleep(time.Millisecond)")
		}
		g.p("\t\t\t}")
		g.p("\t\t}")
		g.p("\t}()")
	case 3: // forwarders push into a mutex+cond protected queue, one or two consumers wait on the condition
		g.p("\tvar qmu sync.Mutex")
		g.p("\tqcond := sync.NewCond(&qmu)")
		g.p("\tvar queue []int")
		g.p("\tqdone := false")
		g.p("\tvar fw sync.WaitGroup")
		for i := 0; i < nch; i++ {
			g.p("\tfw.Add(1)")
			g.p("\tgo func() {")
			g.p("\t\tdefer fw.Done()")
			g.p("\t\tfor v := range c%d {", i)
			g.p("\t\t\tqmu.Lock()")
			g.p("\t\t\tqueue = append(queue, v)")
			g.p("\t\t\tqmu.Unlock()")
			if r.Intn(2) == 0 {
				g.p("\t\t\tqcond.Signal()")
			} else {
				g.p("\t\t\tqcond.Broadcast()")
			}
			g.p("\t\t}")
			g.p("\t}()")
		}
		g.p("\tgo func() {")
		g.p("\t\tfw.Wait()")
		g.p("\t\tqmu.Lock()")
		g.p("\t\tqdone = true")
		g.p("\t\tqmu.Unlock()")
		g.p("\t\tqcond.Broadcast()")
		g.p("\t}()")
		g.p("\tfor q := 0; q < %d; q++ {", 1+r.Intn(2))
		g.p("\t\twg.Add(1)")
		g.p("\t\tgo func() {")
		g.p("\t\t\tdefer wg.Done()")
		g.p("\t\t\tfor {")
		g.p("\t\t\t\tqmu.Lock()")
		g.p("\t\t\t\tfor len(queue) == 0 && !qdone {")
		g.p("\t\t\t\t\tqcond.Wait()")
		g.p("\t\t\t\t}")
		g.p("\t\t\t\tif len(queue) == 0 {")
		g.p("\t\t\t\t\tqmu.Unlock()")
		g.p("\t\t\t\t\treturn")
		g.p("\t\t\t\t}")
		g.p("\t\t\t\tv := queue[0]")
		g.p("\t\t\t\tqueue = queue[1:]")
		g.p("\t\t\t\tqmu.Unlock()")
		add("\t\t\t\t")
		g.p("\t\t\t}")
		g.p("\t\t}()")
		g.p("\t}")
	case 2: // one consumer selecting over all channels, nil-ing closed ones
		g.p("\twg.Add(1)")
		g.p("\tgo func() {")
		g.p("\t\tdefer wg.Done()")
		for i := 0; i < nch; i++ {
			g.p("\t\tk%d := c%d", i, i)
		}
		g.p("\t\topen := %d", nch)
		g.p("\t\tfor open > 0 {")
		g.p("\t\t\tselect {")
		for i := 0; i < nch; i++ {
			g.p("\t\t\tcase v, ok := <-k%d:", i)
			g.p("\t\t\t\tif !ok {")
			g.p("\t\t\t\t\tk%d = nil", i)
			g.p("\t\t\t\t\topen--")
			g.p("\t\t\t\t\tcontinue")
			g.p("\t\t\t\t}")
			add("\t\t\t\t")
		}
		g.p("\t\t\t}")
		g.p("\t\t}")
		g.p("\t}()")
	}
	g.p("\twg.Wait()")
	g.p("\tmu.Lock()")
	g.p("\tdefer mu.Unlock()")
	g.p("\treturn fmt.Sprintf(\"sum=%%d cnt=%%d atomic=%%d\", sum, cnt, atomic.LoadInt64(&acount))")
	g.p("}")
	g.p("")
}

// Generate writes n random programs as package selftest into dir/progs.go.
func Generate(dir string, n int, seed int64) error {
	g := &gen{r: rand.New(rand.NewSource(seed))}
	g.p("// Code generated by selftestgen. DO NOT EDIT.")
	g.p("")
	g.p("package selftest")
	g.p("")
	g.p("import (")
	g.p("\t\"fmt\"")
	g.p("\t\"sync\"")
	g.p("\t\"sync/atomic\"")
	g.p("\t\"time\"")
	g.p(")")
	g.p("")
	g.p("var _ = time.Millisecond")
	g.p("")
	for i := 0; i < n; i++ {
		g.prog(i)
	}
	g.p("// Progs lists the generated programs.")
	g.p("var Progs = []func() string{")
	for i := 0; i < n; i++ {
		g.p("\tProg%d,", i)
	}
	g.p("}")
	if err := os.MkdirAll(dir, 0o755); err != nil {
		return err
	}
	return os.WriteFile(filepath.Join(dir, "progs.go"), []byte(g.b.String()), 0o644)
}

// NativeMain is the source of the program that runs every generated program natively.
const NativeMain = `package main

import (
	"fmt"
	"os"
	"time"

	"selftestmod/selftest"
)

func main() {
	for i, p := range selftest.Progs {
		done := make(chan string, 1)
		go func() { done <- p() }()
		select {
		case out := <-done:
			fmt.Printf("%d %s\n", i, out)
		case <-time.After(20 * time.Second):
			fmt.Printf("%d NATIVE-TIMEOUT\n", i)
			os.Exit(3)
		}
	}
}
`

// SimMain is the source of the program that runs every generated program under the simulator.
const SimMain = `package main

import (
	"flag"
	"fmt"
	"os"

	"selftestmod/selftest"
	"selftestmod/simrt"
)

func main() {
	seeds := flag.Int("seeds", 50, "schedules per program")
	digests := flag.Bool("digests", false, "print the digest of every run (determinism comparison)")
	flag.Parse()
	bad := 0
	for i, p := range selftest.Progs {
		for s := 0; s < *seeds; s++ {
			r := simrt.NewRNG(uint64(i)*1000003 + uint64(s))
			sp := simrt.StrategySpec{Seed: r.Uint64(), Arm: []string{"uniform", "first", "last"}[r.Intn(3)]}
			switch s % 4 {
			case 0:
				sp.Kind = "uniform"
			case 1:
				sp.Kind = "sticky"
				sp.P = 0.9
			case 2:
				sp.Kind = "pct"
				sp.Depth = r.Intn(6)
				sp.Horizon = 400
			case 3:
				sp.Kind = "starve"
				sp.Class = "other"
				sp.Windows = [][2]int{{r.Intn(100), 100 + r.Intn(300)}}
			}
			out := ""
			sim := simrt.New(simrt.Config{MaxSteps: 200000, Strategy: sp.Build(), Record: true, HB: true, SharedPkg: func(string) bool { return true }})
			simrt.EnableShared(true)
			res := sim.Run(func() { out = p() })
			simrt.EnableShared(false)
			switch {
			case sim.Fail != "":
				fmt.Printf("%d seed %d SIM-FAIL %s\n", i, s, sim.Fail)
				bad++
			case len(sim.Panics) > 0:
				fmt.Printf("%d seed %d SIM-PANIC %s\n", i, s, sim.Panics[0].Val)
				bad++
			case res.EndKind != "quiescent" || out == "":
				fmt.Printf("%d seed %d SIM-STUCK end=%s steps=%d\n", i, s, res.EndKind, res.Steps)
				bad++
			case len(sim.Races) > 0:
				fmt.Printf("%d seed %d SIM-RACE %s\n", i, s, sim.Races[0].String())
				bad++
			default:
				fmt.Printf("%d %s\n", i, out)
			}
			if *digests {
				fmt.Printf("# %d %d %d %d\n", i, s, res.Hash, res.Steps)
			}
		}
	}
	if bad > 0 {
		os.Exit(1)
	}
}
`
