// Package instr is the source-to-source instrumenter ("verifgen"): it rewrites a scratch
// copy of the library so that every synchronisation point, shared-state access, loop and
// function entry calls into the gate runtime simrt. See DESIGN.md 3.2.
package instr

import (
	"bytes"
	"fmt"
	"go/ast"
	"go/constant"
	"go/format"
	"go/token"
	"go/types"
	"hash/fnv"
	"os"
	"path/filepath"
	"sort"
	"strconv"
	"strings"

	"golang.org/x/tools/go/ast/astutil"
	"golang.org/x/tools/go/packages"
)

// Site is one instrumented location.
type Site struct {
	Name string
	Pkg  string
	Kind string
	Func string
	Text string
	Type string
}

// Report is the result of instrumenting a tree.
type Report struct {
	Sites       []Site
	Counts      map[string]int
	Files       int
	Unsupported []string
	ModPath     string
}

type inst struct {
	fset    *token.FileSet
	pkg     *packages.Package
	info    *types.Info
	modPath string
	rep     *Report
	srcs    map[string][]byte

	file       *ast.File
	fileName   string
	curFunc    string
	tmpN       int
	skipRecv   map[*ast.UnaryExpr]bool
	skipSend   map[*ast.SendStmt]bool
	writeRoots map[ast.Node]bool
	writeTops  map[ast.Node]bool     // assignment targets as written (for element-level recording)
	chainTgt   map[ast.Node]chainRec // presence = record an element access at this node
	skipChain  map[ast.Node]bool
	noShared   map[ast.Node]bool
	names      map[string]int
	sizes      types.Sizes
	an         *analysis
	concFile   bool
	// facts about method-call receivers recorded before their sub-expressions are rewritten
	recvTV     map[*ast.SelectorExpr]types.TypeAndValue
	recvShared map[*ast.SelectorExpr]bool
	recvLocal  map[*ast.SelectorExpr]bool
	// variables that are assigned, incremented or have their address taken somewhere in the
	// file (candidates for being shared through a closure), and the stack of enclosing
	// function literals during rewriting
	mutated  map[*types.Var]bool
	litStack []*ast.FuncLit
	// function literals that cannot hand their captured variables to another goroutine: they
	// are called on the spot (`defer func(){..}()`, `func(){..}()`), never stored, passed or
	// started with go. Their captured variables are ordinary locals of the enclosing call and
	// usually live on the goroutine stack, whose addresses are recycled between goroutines -
	// they must not be fed to the address-keyed race detector.
	localLit map[*ast.FuncLit]bool
}

// analysis holds whole-module facts computed before any rewriting.
type analysis struct {
	decls  map[*types.Func]*ast.FuncDecl
	infos  map[*types.Func]*types.Info
	writes map[*types.Func]bool
}

// Run instruments every non-test Go file of every package below dir (a module root).
func Run(dir string) (*Report, error) {
	modPath, err := readModPath(filepath.Join(dir, "go.mod"))
	if err != nil {
		return nil, err
	}
	cfg := &packages.Config{
		Mode: packages.NeedName | packages.NeedFiles | packages.NeedCompiledGoFiles | packages.NeedSyntax |
			packages.NeedTypes | packages.NeedTypesInfo | packages.NeedImports | packages.NeedDeps,
		Dir:   dir,
		Tests: false,
		Env:   append(os.Environ(), "GOFLAGS=-mod=mod", "GOPROXY=off", "GOSUMDB=off", "GOTOOLCHAIN=local"),
	}
	pkgs, err := packages.Load(cfg, "./...")
	if err != nil {
		return nil, fmt.Errorf("load: %w", err)
	}
	rep := &Report{Counts: map[string]int{}, ModPath: modPath}
	sort.Slice(pkgs, func(i, j int) bool { return pkgs[i].PkgPath < pkgs[j].PkgPath })
	names := map[string]int{}
	an := analyse(pkgs, modPath)
	for _, p := range pkgs {
		if len(p.Errors) > 0 {
			return nil, fmt.Errorf("package %s: %v", p.PkgPath, p.Errors[0])
		}
		if p.PkgPath != modPath && !strings.HasPrefix(p.PkgPath, modPath+"/") {
			continue
		}
		rel := strings.TrimPrefix(strings.TrimPrefix(p.PkgPath, modPath), "/")
		if rel == "simrt" || strings.HasPrefix(rel, "cmd/h") {
			continue
		}
		in := &inst{fset: p.Fset, pkg: p, info: p.TypesInfo, modPath: modPath, rep: rep, names: names,
			sizes: types.SizesFor("gc", "amd64"), srcs: map[string][]byte{}, an: an}
		for i, f := range p.Syntax {
			fn := p.CompiledGoFiles[i]
			if strings.HasSuffix(fn, "_test.go") {
				continue
			}
			if err := in.doFile(f, fn); err != nil {
				return nil, err
			}
			rep.Files++
		}
	}
	return rep, nil
}

func readModPath(gomod string) (string, error) {
	b, err := os.ReadFile(gomod)
	if err != nil {
		return "", err
	}
	for _, l := range strings.Split(string(b), "\n") {
		l = strings.TrimSpace(l)
		if strings.HasPrefix(l, "module ") {
			return strings.Trim(strings.TrimSpace(l[len("module "):]), "\""), nil
		}
	}
	return "", fmt.Errorf("no module line in %s", gomod)
}

func (in *inst) unsupported(pos token.Pos, msg string) {
	in.rep.Unsupported = append(in.rep.Unsupported, fmt.Sprintf("%s: %s", in.fset.Position(pos), msg))
}

func (in *inst) text(n ast.Node) string {
	if n == nil || !n.Pos().IsValid() || !n.End().IsValid() {
		return ""
	}
	tf := in.fset.File(n.Pos())
	if tf == nil {
		return ""
	}
	src := in.srcs[tf.Name()]
	a, b := tf.Offset(n.Pos()), tf.Offset(n.End())
	if a < 0 || b > len(src) || a > b {
		return ""
	}
	return strings.Join(strings.Fields(string(src[a:b])), " ")
}

func abbreviate(s string) string {
	if len(s) > 60 {
		return s[:57] + "..."
	}
	return s
}

// site allocates a site id; the name is derived from the ORIGINAL source text.
func (in *inst) site(kind string, n ast.Node) ast.Expr {
	txt := in.text(n)
	h := fnv.New32a()
	h.Write([]byte(txt))
	name := fmt.Sprintf("%s:%s:%s:%08x", filepath.Base(in.fileName), in.curFunc, kind, h.Sum32())
	in.names[name]++
	if k := in.names[name]; k > 1 {
		name = fmt.Sprintf("%s#%d", name, k)
	}
	id := len(in.rep.Sites)
	in.rep.Sites = append(in.rep.Sites, Site{Name: name, Pkg: in.pkg.Name, Kind: kind, Func: in.curFunc, Text: abbreviate(txt)})
	in.rep.Counts[kind]++
	return &ast.BasicLit{Kind: token.INT, Value: strconv.Itoa(id)}
}

func rt(name string) ast.Expr {
	return &ast.SelectorExpr{X: ast.NewIdent("simrt"), Sel: ast.NewIdent(name)}
}

func call(fn ast.Expr, args ...ast.Expr) *ast.CallExpr { return &ast.CallExpr{Fun: fn, Args: args} }

func (in *inst) tmp(prefix string) *ast.Ident {
	in.tmpN++
	return ast.NewIdent(fmt.Sprintf("sim%s%d", prefix, in.tmpN))
}

func (in *inst) isConstOrNil(e ast.Expr) bool {
	tv, ok := in.info.Types[e]
	if !ok {
		return false
	}
	return tv.Value != nil || tv.IsNil()
}

func (in *inst) doFile(f *ast.File, fn string) error {
	src, err := os.ReadFile(fn)
	if err != nil {
		return err
	}
	in.srcs[fn] = src
	in.file, in.fileName = f, fn
	in.skipRecv = map[*ast.UnaryExpr]bool{}
	in.skipSend = map[*ast.SendStmt]bool{}
	in.writeRoots = map[ast.Node]bool{}
	in.writeTops = map[ast.Node]bool{}
	in.chainTgt = map[ast.Node]chainRec{}
	in.skipChain = map[ast.Node]bool{}
	in.noShared = map[ast.Node]bool{}
	in.recvTV = map[*ast.SelectorExpr]types.TypeAndValue{}
	in.recvShared = map[*ast.SelectorExpr]bool{}
	in.recvLocal = map[*ast.SelectorExpr]bool{}
	in.mutated = map[*types.Var]bool{}
	in.litStack = nil
	in.localLit = map[*ast.FuncLit]bool{}
	in.collectMutated(f)
	in.collectLocalLits(f)

	in.concFile = false
	ast.Inspect(f, func(n ast.Node) bool {
		switch x := n.(type) {
		case *ast.GoStmt, *ast.SendStmt, *ast.SelectStmt:
			in.concFile = true
		case *ast.UnaryExpr:
			if x.Op == token.ARROW {
				in.concFile = true
			}
		}
		return !in.concFile
	})
	for _, imp := range f.Imports {
		if imp.Path.Value == `"C"` {
			in.unsupported(imp.Pos(), "cgo is not modelled")
		}
	}

	// build-constraint header
	var header []string
	for _, cg := range f.Comments {
		if cg.End() >= f.Package {
			break
		}
		for _, c := range cg.List {
			if strings.HasPrefix(c.Text, "//go:build") || strings.HasPrefix(c.Text, "// +build") {
				header = append(header, c.Text)
			}
		}
	}

	// file-wide: time.X selectors (types in declarations too)
	astutil.Apply(f, nil, func(c *astutil.Cursor) bool {
		if se, ok := c.Node().(*ast.SelectorExpr); ok {
			if r := in.timeSel(se); r != nil {
				c.Replace(r)
			}
		}
		return true
	})

	for _, d := range f.Decls {
		fd, ok := d.(*ast.FuncDecl)
		if !ok || fd.Body == nil {
			continue
		}
		in.curFunc = funcName(fd)
		in.markWrites(fd.Body)
		in.rewriteBody(fd.Body)
		in.addTick(fd.Body, "func", fd)
	}

	f.Comments = nil
	for _, d := range f.Decls {
		switch x := d.(type) {
		case *ast.FuncDecl:
			x.Doc = nil
		case *ast.GenDecl:
			x.Doc = nil
		}
	}
	f.Doc = nil
	usesRT := false
	ast.Inspect(f, func(n ast.Node) bool {
		if se, ok := n.(*ast.SelectorExpr); ok {
			if id, ok := se.X.(*ast.Ident); ok && id.Name == "simrt" && id.Obj == nil {
				usesRT = true
			}
		}
		return !usesRT
	})
	if usesRT {
		astutil.AddNamedImport(in.fset, f, "simrt", in.modPath+"/simrt")
	}
	in.pruneImports(f)

	var buf bytes.Buffer
	for _, h := range header {
		buf.WriteString(h + "\n")
	}
	if len(header) > 0 {
		buf.WriteString("\n")
	}
	if err := format.Node(&buf, in.fset, f); err != nil {
		return fmt.Errorf("print %s: %w", fn, err)
	}
	return os.WriteFile(fn, buf.Bytes(), 0o644)
}

func funcName(fd *ast.FuncDecl) string {
	if fd.Recv != nil && len(fd.Recv.List) > 0 {
		t := fd.Recv.List[0].Type
		star := ""
		if s, ok := t.(*ast.StarExpr); ok {
			t = s.X
			star = "*"
		}
		if ix, ok := t.(*ast.IndexExpr); ok {
			t = ix.X
		}
		if id, ok := t.(*ast.Ident); ok {
			return "(" + star + id.Name + ")." + fd.Name.Name
		}
	}
	return fd.Name.Name
}

var timeFuncs = map[string]string{
	"Now": "Now", "Since": "Since", "Until": "Until", "Sleep": "Sleep", "After": "After", "Tick": "TimeTick",
	"NewTimer": "NewTimer", "NewTicker": "NewTicker", "AfterFunc": "AfterFunc", "Timer": "Timer", "Ticker": "Ticker",
}

func (in *inst) timeSel(se *ast.SelectorExpr) ast.Expr {
	id, ok := se.X.(*ast.Ident)
	if !ok {
		return nil
	}
	pn, ok := in.info.Uses[id].(*types.PkgName)
	if ok && pn.Imported().Path() == "context" {
		switch se.Sel.Name {
		case "WithTimeout":
			in.rep.Counts["time"]++
			return rt("CtxWithTimeout")
		case "WithDeadline":
			in.rep.Counts["time"]++
			return rt("CtxWithDeadline")
		}
		return nil
	}
	if !ok || pn.Imported().Path() != "time" {
		return nil
	}
	if to, ok := timeFuncs[se.Sel.Name]; ok {
		in.rep.Counts["time"]++
		return rt(to)
	}
	return nil
}

func (in *inst) pruneImports(f *ast.File) {
	used := map[string]bool{}
	ast.Inspect(f, func(n ast.Node) bool {
		if se, ok := n.(*ast.SelectorExpr); ok {
			if id, ok := se.X.(*ast.Ident); ok {
				used[id.Name] = true
			}
		}
		return true
	})
	for _, imp := range append([]*ast.ImportSpec(nil), f.Imports...) {
		path, _ := strconv.Unquote(imp.Path.Value)
		if path != "time" && path != "sync" && path != "sync/atomic" && path != "context" {
			continue
		}
		name := path[strings.LastIndex(path, "/")+1:]
		if imp.Name != nil {
			name = imp.Name.Name
		}
		if name == "_" || name == "." {
			continue
		}
		if !used[name] {
			if imp.Name != nil {
				astutil.DeleteNamedImport(in.fset, f, imp.Name.Name, path)
			} else {
				astutil.DeleteImport(in.fset, f, path)
			}
		}
	}
}

// ---- shared (package-level) variables ----

func (in *inst) isLibPkg(p *types.Package) bool {
	if p == nil {
		return false
	}
	pp := p.Path()
	if pp != in.modPath && !strings.HasPrefix(pp, in.modPath+"/") {
		return false
	}
	return !strings.HasSuffix(pp, "/simrt")
}

func (in *inst) sharedVar(id *ast.Ident) *types.Var {
	obj, ok := in.info.Uses[id]
	if !ok {
		return nil
	}
	v, ok := obj.(*types.Var)
	if !ok || v.IsField() || v.Pkg() == nil {
		return nil
	}
	if v.Parent() != v.Pkg().Scope() {
		return nil
	}
	if !in.isLibPkg(v.Pkg()) {
		return nil
	}
	return v
}

// collectMutated records every local variable that is written after its declaration
// (assignment, ++/--, op-assign, range assignment, copy/delete/clear target) or whose address
// is taken. A variable captured by a function literal can only carry a race or cross-talk
// between goroutines if it is in this set; captured variables that are never written again
// (receivers, constants-in-effect) are left alone.
func (in *inst) collectMutated(f *ast.File) {
	mark := func(e ast.Expr) {
		var id *ast.Ident
		switch x := rootOf(e).(type) {
		case *ast.Ident:
			id = x
		case *ast.SelectorExpr:
			if i, ok := x.X.(*ast.Ident); ok {
				id = i
			}
		}
		if id == nil {
			return
		}
		if v, ok := in.info.Uses[id].(*types.Var); ok && !v.IsField() {
			in.mutated[v] = true
		}
	}
	ast.Inspect(f, func(n ast.Node) bool {
		switch x := n.(type) {
		case *ast.AssignStmt:
			if x.Tok != token.DEFINE {
				for _, l := range x.Lhs {
					mark(l)
				}
			} else {
				// a := in a define that re-assigns an existing variable
				for _, l := range x.Lhs {
					if id, ok := l.(*ast.Ident); ok {
						if _, isDef := in.info.Defs[id]; !isDef || in.info.Defs[id] == nil {
							mark(l)
						}
					}
				}
			}
		case *ast.IncDecStmt:
			mark(x.X)
		case *ast.RangeStmt:
			if x.Tok == token.ASSIGN {
				if x.Key != nil {
					mark(x.Key)
				}
				if x.Value != nil {
					mark(x.Value)
				}
			}
		case *ast.UnaryExpr:
			if x.Op == token.AND {
				mark(x.X)
			}
		case *ast.CallExpr:
			if id, ok := x.Fun.(*ast.Ident); ok && len(x.Args) > 0 {
				if _, isB := in.info.Uses[id].(*types.Builtin); isB {
					switch id.Name {
					case "copy", "delete", "clear":
						mark(x.Args[0])
					}
				}
			}
		}
		return true
	})
}

// collectLocalLits marks function literals that are invoked where they are written and are
// not the operand of a go statement.
func (in *inst) collectLocalLits(f *ast.File) {
	goCalls := map[*ast.CallExpr]bool{}
	ast.Inspect(f, func(n ast.Node) bool {
		if g, ok := n.(*ast.GoStmt); ok {
			goCalls[g.Call] = true
		}
		return true
	})
	ast.Inspect(f, func(n ast.Node) bool {
		if ce, ok := n.(*ast.CallExpr); ok && !goCalls[ce] {
			if lit, ok := unparen(ce.Fun).(*ast.FuncLit); ok {
				in.localLit[lit] = true
			}
		}
		return true
	})
}

// capturedVar reports the variable id refers to if it is a local variable declared outside
// the innermost enclosing function literal (i.e. shared with the code that created the
// closure, possibly with other goroutines) and written somewhere after its declaration.
func (in *inst) capturedVar(id *ast.Ident) *types.Var {
	if len(in.litStack) == 0 {
		return nil
	}
	v, ok := in.info.Uses[id].(*types.Var)
	if !ok || v.IsField() || v.Pkg() == nil || v.Parent() == v.Pkg().Scope() {
		return nil
	}
	if !in.mutated[v] {
		return nil
	}
	// shared only if some enclosing literal that can travel (stored, returned, passed, started
	// with go) closes over it
	crosses := false
	for _, lit := range in.litStack {
		if in.localLit[lit] {
			continue
		}
		if v.Pos() < lit.Pos() || v.Pos() >= lit.End() {
			crosses = true
		}
	}
	if !crosses {
		return nil
	}
	// sync primitives and typed atomics are handled through their methods
	if n, ok := v.Type().(*types.Named); ok && n.Obj().Pkg() != nil {
		switch n.Obj().Pkg().Path() {
		case "sync", "sync/atomic":
			return nil
		}
	}
	return v
}

func rootOf(e ast.Expr) ast.Expr {
	for {
		switch x := e.(type) {
		case *ast.ParenExpr:
			e = x.X
		case *ast.IndexExpr:
			e = x.X
		case *ast.SliceExpr:
			e = x.X
		case *ast.StarExpr:
			e = x.X
		case *ast.SelectorExpr:
			// pkg.V is itself a root
			if _, ok := x.X.(*ast.Ident); ok {
				return x
			}
			e = x.X
		default:
			return e
		}
	}
}

// markRoot marks the variable that an assignment target WRITES. The race detector works at the
// granularity of whole variables (their base address), so only these count as writes of v:
// v = ..., v++, v op= ..., pkg.V = ..., and m[k] = ... / delete(m, k) for a map m (a map write
// conflicts with every other access to the map). v[i] = ... on a slice or array, v.f = ... and
// *v = ... write an element, a field or the pointee, not the variable: they count as reads of v
// (the header / pointer is read). Treating them as writes of v flagged correct code that
// protects elements individually (sharded counters, per-slot locks).
func (in *inst) markRoot(e ast.Expr) {
	switch x := unparen(e).(type) {
	case *ast.Ident:
		in.writeRoots[x] = true
	case *ast.SelectorExpr:
		if id, ok := x.X.(*ast.Ident); ok {
			if _, isPkg := in.info.Uses[id].(*types.PkgName); isPkg {
				in.writeRoots[x] = true
				in.writeRoots[id] = true
			}
		}
	case *ast.IndexExpr:
		if t := in.info.TypeOf(x.X); t != nil {
			if _, isMap := t.Underlying().(*types.Map); isMap {
				in.markRoot(x.X)
			}
		}
	}
}

func (in *inst) markWrites(body *ast.BlockStmt) {
	ast.Inspect(body, func(n ast.Node) bool {
		switch x := n.(type) {
		case *ast.AssignStmt:
			if x.Tok != token.DEFINE {
				for _, l := range x.Lhs {
					in.markRoot(l)
					in.writeTops[unparen(l)] = true
				}
			}
		case *ast.IncDecStmt:
			in.markRoot(x.X)
			in.writeTops[unparen(x.X)] = true
		case *ast.RangeStmt:
			if x.Tok == token.ASSIGN {
				if x.Key != nil {
					in.markRoot(x.Key)
					in.skipChain[unparen(x.Key)] = true
				}
				if x.Value != nil {
					in.markRoot(x.Value)
					in.skipChain[unparen(x.Value)] = true
				}
			}
		case *ast.CallExpr:
			if id, ok := x.Fun.(*ast.Ident); ok && len(x.Args) > 0 {
				if _, isB := in.info.Uses[id].(*types.Builtin); isB {
					switch id.Name {
					case "copy", "delete", "clear":
						in.markRoot(x.Args[0])
						if t := in.info.TypeOf(x.Args[0]); t != nil && id.Name != "copy" {
							if _, isMap := t.Underlying().(*types.Map); isMap {
								in.writeTops[unparen(x.Args[0])] = true
							}
						}
					}
				}
			}
		}
		return true
	})
}

type chainRec struct {
	write bool
	site  ast.Expr
}

// chainTarget analyses top, a maximal selector/index/dereference chain (v.f, v[i].g, (*v).h,
// v.m[k] ...) rooted at a shared variable, and returns the sub-expression whose exact address is
// the memory location the chain accesses: the whole chain when every hop is addressable, or the
// map operand of the innermost map index (a map element has no address; an access to it is an
// access to the map). nil when the chain is not rooted at a shared variable, when the location
// is the root variable itself (recorded by the root's own wrapper) or an array/struct (which
// part of it is used is decided further up or not at all).
func (in *inst) chainTarget(top ast.Expr) (target ast.Expr, write bool) {
	var hops []ast.Expr
	var root ast.Expr
	e := top
walk:
	for {
		switch x := e.(type) {
		case *ast.ParenExpr:
			e = x.X
		case *ast.SelectorExpr:
			if id, ok := x.X.(*ast.Ident); ok {
				if _, isPkg := in.info.Uses[id].(*types.PkgName); isPkg {
					if in.sharedVar(x.Sel) == nil || in.noShared[x] || in.noShared[x.Sel] {
						return nil, false
					}
					root = x
					break walk
				}
			}
			sel, ok := in.info.Selections[x]
			if !ok || sel.Kind() != types.FieldVal {
				return nil, false
			}
			hops = append(hops, x)
			e = x.X
		case *ast.IndexExpr:
			t := in.info.TypeOf(x.X)
			if t == nil {
				return nil, false
			}
			switch u := t.Underlying().(type) {
			case *types.Slice, *types.Array, *types.Map:
			case *types.Pointer:
				if _, ok := u.Elem().Underlying().(*types.Array); !ok {
					return nil, false
				}
			default:
				return nil, false
			}
			hops = append(hops, x)
			e = x.X
		case *ast.StarExpr:
			hops = append(hops, x)
			e = x.X
		case *ast.Ident:
			if in.noShared[x] {
				return nil, false
			}
			if _, isDef := in.info.Defs[x]; isDef {
				return nil, false
			}
			if in.sharedVar(x) == nil && in.capturedVar(x) == nil {
				return nil, false
			}
			root = x
			break walk
		default:
			return nil, false
		}
	}
	if len(hops) == 0 {
		return nil, false
	}
	// innermost map index: hops run from the top towards the root
	for i := len(hops) - 1; i >= 0; i-- {
		ix, ok := hops[i].(*ast.IndexExpr)
		if !ok {
			continue
		}
		if _, isMap := in.info.TypeOf(ix.X).Underlying().(*types.Map); !isMap {
			continue
		}
		if unparen(ix.X) == root {
			return nil, false
		}
		return ix.X, ast.Expr(ix) == unparen(top) && in.writeTops[ix]
	}
	if t := in.info.TypeOf(top); t != nil {
		switch t.Underlying().(type) {
		case *types.Array, *types.Struct:
			return nil, false
		}
	} else {
		return nil, false
	}
	return top, in.writeTops[unparen(top)]
}

// continuesChain reports whether parent extends the chain that n is the upper end of.
func (in *inst) continuesChain(parent ast.Node, n ast.Expr) bool {
	switch p := parent.(type) {
	case *ast.ParenExpr:
		return true
	case *ast.StarExpr:
		return true
	case *ast.IndexExpr:
		return p.X == n
	case *ast.SelectorExpr:
		if p.X != n {
			return false
		}
		sel, ok := in.info.Selections[p]
		return ok && sel.Kind() == types.FieldVal
	}
	return false
}

func (in *inst) wrapShared(orig ast.Node, e ast.Expr, write bool) ast.Expr {
	kind, fn := "r", "R"
	if write {
		kind, fn = "w", "W"
	}
	// a use of an array- or struct-typed variable touches one element or field of it; which one
	// is not known at this granularity: scheduling point only, nothing recorded (unless the
	// whole variable is assigned)
	if !write {
		if t := in.info.TypeOf(e); t != nil {
			switch t.Underlying().(type) {
			case *types.Array, *types.Struct:
				kind, fn = "r", "RN"
			}
		}
	}
	return &ast.ParenExpr{X: &ast.StarExpr{X: call(rt(fn), in.site(kind, orig), &ast.UnaryExpr{Op: token.AND, X: e})}}
}

// ---- statement and expression rewriting ----

func (in *inst) addTick(body *ast.BlockStmt, kind string, n ast.Node) {
	tick := &ast.ExprStmt{X: call(rt("Tick"), in.site(kind, tickKey{n, in}))}
	body.List = append([]ast.Stmt{tick}, body.List...)
}

// tickKey makes the site text of a tick the header of the construct, not its whole body.
type tickKey struct {
	n  ast.Node
	in *inst
}

func (t tickKey) Pos() token.Pos { return t.n.Pos() }
func (t tickKey) End() token.Pos {
	switch x := t.n.(type) {
	case *ast.FuncDecl:
		if x.Body != nil {
			return x.Body.Lbrace
		}
	case *ast.FuncLit:
		return x.Body.Lbrace
	case *ast.ForStmt:
		return x.Body.Lbrace
	case *ast.RangeStmt:
		return x.Body.Lbrace
	}
	return t.n.End()
}

func (in *inst) rewriteBody(body *ast.BlockStmt) {
	pre := func(c *astutil.Cursor) bool {
		switch n := c.Node().(type) {
		case *ast.FuncLit:
			in.litStack = append(in.litStack, n)
		case *ast.SelectStmt:
			for _, cl := range n.Body.List {
				cc := cl.(*ast.CommClause)
				if cc.Comm != nil {
					ast.Inspect(cc.Comm, func(m ast.Node) bool {
						if e, ok := m.(ast.Expr); ok {
							in.skipChain[e] = true
						}
						return true
					})
				}
				switch s := cc.Comm.(type) {
				case *ast.SendStmt:
					in.skipSend[s] = true
				case *ast.ExprStmt:
					if u, ok := unparen(s.X).(*ast.UnaryExpr); ok && u.Op == token.ARROW {
						in.skipRecv[u] = true
					}
				case *ast.AssignStmt:
					if len(s.Rhs) == 1 {
						if u, ok := unparen(s.Rhs[0]).(*ast.UnaryExpr); ok && u.Op == token.ARROW {
							in.skipRecv[u] = true
						}
					}
				}
			}
		case *ast.SelectorExpr, *ast.IndexExpr, *ast.StarExpr:
			ne := n.(ast.Expr)
			if in.skipChain[ne] || in.continuesChain(c.Parent(), ne) {
				break
			}
			if u, ok := c.Parent().(*ast.UnaryExpr); ok && u.Op == token.AND {
				break
			}
			if tgt, w := in.chainTarget(ne); tgt != nil {
				kind := "r"
				if w {
					kind = "w"
				}
				// the site is taken now: its text is the source text of the untouched chain
				in.chainTgt[unparen(tgt)] = chainRec{write: w, site: in.site(kind, unparen(tgt))}
			}
		case *ast.IncDecStmt:
			if c.Index() >= 0 {
				if r := in.splitRMW(n.X, n.Tok, nil, n); r != nil {
					c.Replace(r)
				}
			}
		case *ast.AssignStmt:
			if c.Index() >= 0 && len(n.Lhs) == 1 && len(n.Rhs) == 1 && n.Tok != token.DEFINE {
				if r := in.splitRMW(n.Lhs[0], n.Tok, n.Rhs[0], n); r != nil {
					c.Replace(r)
				}
			}
		case *ast.CallExpr:
			if se, ok := n.Fun.(*ast.SelectorExpr); ok {
				if tv, ok := in.info.Types[se.X]; ok {
					in.recvTV[se] = tv
					in.recvShared[se] = in.rootIsShared(se.X)
					in.recvLocal[se] = in.localValue(se.X)
				}
			}
		case *ast.KeyValueExpr:
			// struct-literal field keys are not variable uses
			if id, ok := n.Key.(*ast.Ident); ok {
				in.noShared[id] = true
			}
		}
		return true
	}
	post := func(c *astutil.Cursor) bool {
		if e, ok := c.Node().(ast.Expr); ok {
			if rec, ok := in.chainTgt[e]; ok {
				switch e.(type) {
				case *ast.SelectorExpr, *ast.IndexExpr, *ast.StarExpr:
					delete(in.chainTgt, e)
					fn := "R"
					if rec.write {
						fn = "W"
					}
					in.rep.Counts["field"]++
					c.Replace(&ast.ParenExpr{X: &ast.StarExpr{X: call(rt(fn), rec.site, &ast.UnaryExpr{Op: token.AND, X: e})}})
					return true
				}
			}
		}
		switch n := c.Node().(type) {
		case *ast.GoStmt:
			c.Replace(in.goStmt(n))
		case *ast.SendStmt:
			if !in.skipSend[n] {
				c.Replace(in.sendStmt(n))
			}
		case *ast.RangeStmt:
			if t := in.info.TypeOf(n.X); t != nil {
				if _, ok := t.Underlying().(*types.Chan); ok {
					c.Replace(in.rangeChan(n))
					return true
				}
				if _, ok := t.Underlying().(*types.Map); ok && containsGate(n.Body) {
					in.unsupported(n.Pos(), "range over a map whose body contains a synchronisation point (runtime-random order)")
				}
			}
			in.addTick(n.Body, "loop", n)
		case *ast.ForStmt:
			in.addTick(n.Body, "loop", n)
		case *ast.FuncLit:
			in.addTick(n.Body, "func", n)
			if k := len(in.litStack); k > 0 && in.litStack[k-1] == n {
				in.litStack = in.litStack[:k-1]
			}
		case *ast.LabeledStmt:
			// goto targets that are not loops get a tick of their own
		case *ast.SelectStmt:
			c.Replace(in.selectStmt(n))
		case *ast.UnaryExpr:
			if n.Op == token.ARROW && !in.skipRecv[n] {
				n.X = call(rt("RC"), in.site("recv", n), n.X)
			}
		case *ast.CallExpr:
			if r := in.callExpr(n, c.Parent()); r != nil {
				c.Replace(r)
			}
		case *ast.SelectorExpr:
			if id, ok := n.X.(*ast.Ident); ok {
				if _, isPkg := in.info.Uses[id].(*types.PkgName); isPkg {
					if v := in.sharedVar(n.Sel); v != nil {
						if u, ok := c.Parent().(*ast.UnaryExpr); ok && u.Op == token.AND && in.noShared[u] {
							return true
						}
						c.Replace(in.wrapShared(n, n, in.writeRoots[n]))
					}
				}
			}
		case *ast.Ident:
			if in.noShared[n] {
				return true
			}
			if p, ok := c.Parent().(*ast.SelectorExpr); ok && p.Sel == n {
				return true
			}
			if v := in.sharedVar(n); v != nil {
				if u, ok := c.Parent().(*ast.UnaryExpr); ok && u.Op == token.AND && in.noShared[u] {
					return true
				}
				c.Replace(in.wrapShared(n, n, in.writeRoots[n]))
				return true
			}
			if v := in.capturedVar(n); v != nil {
				if u, ok := c.Parent().(*ast.UnaryExpr); ok && u.Op == token.AND && in.noShared[u] {
					return true
				}
				// definitions and pure declarations are not uses
				if _, isDef := in.info.Defs[n]; isDef {
					return true
				}
				in.rep.Counts["captured"]++
				c.Replace(in.wrapShared(n, n, in.writeRoots[n]))
			}
		}
		return true
	}
	// atomics need to see their &v argument before the ident is wrapped: pre-mark.
	ast.Inspect(body, func(n ast.Node) bool {
		if ce, ok := n.(*ast.CallExpr); ok {
			if in.atomicFunc(ce) != "" && len(ce.Args) > 0 {
				if u, ok := unparen(ce.Args[0]).(*ast.UnaryExpr); ok && u.Op == token.AND {
					in.noShared[u] = true
				}
			}
			// methods of the typed atomics (atomic.Uint32 ...): the receiver variable is only
			// ever accessed atomically, the access is recorded by the atomic wrapper itself
			if se, ok := ce.Fun.(*ast.SelectorExpr); ok {
				if sel, ok := in.info.Selections[se]; ok && sel.Kind() == types.MethodVal {
					if fn, ok := sel.Obj().(*types.Func); ok && fn.Pkg() != nil && fn.Pkg().Path() == "sync/atomic" {
						switch r := rootOf(se.X).(type) {
						case *ast.Ident:
							in.noShared[r] = true
						case *ast.SelectorExpr:
							in.noShared[r.Sel] = true
							in.noShared[r] = true
						}
					}
				}
			}
		}
		return true
	})
	astutil.Apply(body, pre, post)
	in.labelTicks(body)
}

// cloneSimple deep-copies an address expression made of identifiers, field selections,
// dereferences, parentheses and constant/identifier indexing (no calls, no receives): such an
// expression can be evaluated a second time without side effects.
func cloneSimple(e ast.Expr) (ast.Expr, bool) {
	switch x := e.(type) {
	case *ast.Ident:
		return &ast.Ident{Name: x.Name, NamePos: x.NamePos}, true
	case *ast.BasicLit:
		return &ast.BasicLit{Kind: x.Kind, Value: x.Value, ValuePos: x.ValuePos}, true
	case *ast.ParenExpr:
		if c, ok := cloneSimple(x.X); ok {
			return &ast.ParenExpr{X: c}, true
		}
	case *ast.StarExpr:
		if c, ok := cloneSimple(x.X); ok {
			return &ast.StarExpr{X: c}, true
		}
	case *ast.UnaryExpr:
		if x.Op == token.AND {
			if c, ok := cloneSimple(x.X); ok {
				return &ast.UnaryExpr{Op: token.AND, X: c}, true
			}
		}
	case *ast.SelectorExpr:
		if c, ok := cloneSimple(x.X); ok {
			return &ast.SelectorExpr{X: c, Sel: &ast.Ident{Name: x.Sel.Name}}, true
		}
	case *ast.IndexExpr:
		c, ok := cloneSimple(x.X)
		i, ok2 := cloneSimple(x.Index)
		if ok && ok2 {
			return &ast.IndexExpr{X: c, Index: i}, true
		}
	}
	return nil, false
}

func unparen(e ast.Expr) ast.Expr {
	for {
		p, ok := e.(*ast.ParenExpr)
		if !ok {
			return e
		}
		e = p.X
	}
}

func containsGate(n ast.Node) bool {
	found := false
	ast.Inspect(n, func(x ast.Node) bool {
		switch y := x.(type) {
		case *ast.SendStmt, *ast.SelectStmt, *ast.GoStmt:
			found = true
		case *ast.UnaryExpr:
			if y.Op == token.ARROW {
				found = true
			}
		case *ast.CallExpr:
			if se, ok := y.Fun.(*ast.SelectorExpr); ok {
				if id, ok := se.X.(*ast.Ident); ok && id.Name == "simrt" {
					switch se.Sel.Name {
					case "RC", "BeforeSend", "Select", "Go", "MutexLock", "RWLock", "RWRLock", "WGWait", "OnceDo":
						found = true
					}
				}
			}
		}
		return !found
	})
	return found
}

// labelTicks inserts a tick after labels that are goto targets and do not label a loop.
func (in *inst) labelTicks(body *ast.BlockStmt) {
	targets := map[string]bool{}
	ast.Inspect(body, func(n ast.Node) bool {
		if b, ok := n.(*ast.BranchStmt); ok && b.Tok == token.GOTO && b.Label != nil {
			targets[b.Label.Name] = true
		}
		return true
	})
	if len(targets) == 0 {
		return
	}
	astutil.Apply(body, nil, func(c *astutil.Cursor) bool {
		ls, ok := c.Node().(*ast.LabeledStmt)
		if !ok || !targets[ls.Label.Name] || c.Index() < 0 {
			return true
		}
		switch ls.Stmt.(type) {
		case *ast.ForStmt, *ast.RangeStmt:
			return true
		}
		inner := ls.Stmt
		ls.Stmt = &ast.ExprStmt{X: call(rt("Tick"), in.site("label", ls.Label))}
		c.InsertAfter(inner)
		return true
	})
}

func (in *inst) goStmt(g *ast.GoStmt) ast.Stmt {
	site := in.site("go", g)
	ce := g.Call
	// no arguments and no results: pass the function value itself (receiver evaluated now)
	if len(ce.Args) == 0 {
		if sig, ok := in.info.TypeOf(ce.Fun).(*types.Signature); ok && sig.Results().Len() == 0 {
			if fl, ok := ce.Fun.(*ast.FuncLit); ok {
				return &ast.ExprStmt{X: call(rt("Go"), site, fl)}
			}
			return &ast.ExprStmt{X: call(rt("Go"), site, ce.Fun)}
		}
	}
	var stmts []ast.Stmt
	fn := ce.Fun
	if _, isLit := fn.(*ast.FuncLit); !isLit {
		if _, isB := in.builtin(fn); !isB {
			ft := in.tmp("F")
			stmts = append(stmts, &ast.AssignStmt{Lhs: []ast.Expr{ft}, Tok: token.DEFINE, Rhs: []ast.Expr{fn}})
			fn = ft
		}
	}
	var args []ast.Expr
	for _, a := range ce.Args {
		if in.isConstOrNil(a) {
			args = append(args, a)
			continue
		}
		at := in.tmp("A")
		stmts = append(stmts, &ast.AssignStmt{Lhs: []ast.Expr{at}, Tok: token.DEFINE, Rhs: []ast.Expr{a}})
		args = append(args, at)
	}
	inner := &ast.CallExpr{Fun: fn, Args: args, Ellipsis: ce.Ellipsis}
	if ce.Ellipsis.IsValid() {
		inner.Ellipsis = 1
	}
	lit := &ast.FuncLit{Type: &ast.FuncType{Params: &ast.FieldList{}}, Body: &ast.BlockStmt{List: []ast.Stmt{&ast.ExprStmt{X: inner}}}}
	stmts = append(stmts, &ast.ExprStmt{X: call(rt("Go"), site, lit)})
	return &ast.BlockStmt{List: stmts}
}

func (in *inst) builtin(fn ast.Expr) (string, bool) {
	if id, ok := unparen(fn).(*ast.Ident); ok {
		if _, isB := in.info.Uses[id].(*types.Builtin); isB {
			return id.Name, true
		}
	}
	return "", false
}

func (in *inst) sendStmt(s *ast.SendStmt) ast.Stmt {
	site := in.site("send", s)
	ct := in.tmp("C")
	stmts := []ast.Stmt{&ast.AssignStmt{Lhs: []ast.Expr{ct}, Tok: token.DEFINE, Rhs: []ast.Expr{s.Chan}}}
	val := s.Value
	if !in.isConstOrNil(val) {
		vt := in.tmp("V")
		stmts = append(stmts, &ast.AssignStmt{Lhs: []ast.Expr{vt}, Tok: token.DEFINE, Rhs: []ast.Expr{val}})
		val = vt
	}
	stmts = append(stmts,
		&ast.ExprStmt{X: call(rt("BeforeSend"), site, ct)},
		&ast.SendStmt{Chan: ct, Value: val},
		&ast.ExprStmt{X: call(rt("AfterSend"), site)})
	return &ast.BlockStmt{List: stmts}
}

func (in *inst) rangeChan(r *ast.RangeStmt) ast.Stmt {
	site := in.site("range", tickKey{r, in})
	ct := in.tmp("C")
	ok := in.tmp("Ok")
	recv := &ast.UnaryExpr{Op: token.ARROW, X: call(rt("RC"), site, ct)}
	var first []ast.Stmt
	switch {
	case r.Key == nil:
		first = []ast.Stmt{&ast.AssignStmt{Lhs: []ast.Expr{ast.NewIdent("_"), ok}, Tok: token.DEFINE, Rhs: []ast.Expr{recv}}}
	case r.Tok == token.DEFINE:
		first = []ast.Stmt{&ast.AssignStmt{Lhs: []ast.Expr{r.Key, ok}, Tok: token.DEFINE, Rhs: []ast.Expr{recv}}}
	default:
		first = []ast.Stmt{
			&ast.DeclStmt{Decl: &ast.GenDecl{Tok: token.VAR, Specs: []ast.Spec{&ast.ValueSpec{Names: []*ast.Ident{ok}, Type: ast.NewIdent("bool")}}}},
			&ast.AssignStmt{Lhs: []ast.Expr{r.Key, ok}, Tok: token.ASSIGN, Rhs: []ast.Expr{recv}},
		}
	}
	first = append(first, &ast.IfStmt{Cond: &ast.UnaryExpr{Op: token.NOT, X: ok}, Body: &ast.BlockStmt{List: []ast.Stmt{&ast.BranchStmt{Tok: token.BREAK}}}})
	// keep the user's body in its own block so that redeclarations of the key stay legal
	body := &ast.BlockStmt{List: append(first, &ast.BlockStmt{List: r.Body.List})}
	return &ast.ForStmt{
		Init: &ast.AssignStmt{Lhs: []ast.Expr{ct}, Tok: token.DEFINE, Rhs: []ast.Expr{r.X}},
		Body: body,
	}
}

func (in *inst) selectStmt(s *ast.SelectStmt) ast.Stmt {
	site := in.site("select", s)
	var lhs, rhs []ast.Expr
	var cases []ast.Expr
	hasDefault := false
	sw := &ast.SwitchStmt{Body: &ast.BlockStmt{}}
	idx := 0
	for _, cl := range s.Body.List {
		cc := cl.(*ast.CommClause)
		if cc.Comm == nil {
			hasDefault = true
			sw.Body.List = append(sw.Body.List, &ast.CaseClause{
				List: []ast.Expr{&ast.UnaryExpr{Op: token.SUB, X: &ast.BasicLit{Kind: token.INT, Value: "1"}}},
				Body: cc.Body})
			continue
		}
		ct := in.tmp("C")
		var comm ast.Stmt
		switch c := cc.Comm.(type) {
		case *ast.SendStmt:
			lhs = append(lhs, ct)
			rhs = append(rhs, c.Chan)
			val := c.Value
			if !in.isConstOrNil(val) {
				vt := in.tmp("V")
				lhs = append(lhs, vt)
				rhs = append(rhs, val)
				val = vt
			}
			comm = &ast.SendStmt{Chan: ct, Value: val}
			cases = append(cases, &ast.CompositeLit{Type: rt("Case"), Elts: []ast.Expr{
				&ast.KeyValueExpr{Key: ast.NewIdent("Ch"), Value: ct},
				&ast.KeyValueExpr{Key: ast.NewIdent("Send"), Value: ast.NewIdent("true")}}})
		case *ast.ExprStmt:
			u := unparen(c.X).(*ast.UnaryExpr)
			lhs = append(lhs, ct)
			rhs = append(rhs, u.X)
			u.X = ct
			comm = c
			cases = append(cases, &ast.CompositeLit{Type: rt("Case"), Elts: []ast.Expr{&ast.KeyValueExpr{Key: ast.NewIdent("Ch"), Value: ct}}})
		case *ast.AssignStmt:
			u := unparen(c.Rhs[0]).(*ast.UnaryExpr)
			lhs = append(lhs, ct)
			rhs = append(rhs, u.X)
			u.X = ct
			comm = c
			cases = append(cases, &ast.CompositeLit{Type: rt("Case"), Elts: []ast.Expr{&ast.KeyValueExpr{Key: ast.NewIdent("Ch"), Value: ct}}})
		}
		body := []ast.Stmt{comm}
		if _, isSend := comm.(*ast.SendStmt); isSend {
			body = append(body, &ast.ExprStmt{X: call(rt("AfterSend"), site)})
		}
		sw.Body.List = append(sw.Body.List, &ast.CaseClause{
			List: []ast.Expr{&ast.BasicLit{Kind: token.INT, Value: strconv.Itoa(idx)}},
			Body: append(body, cc.Body...)})
		idx++
	}
	if len(lhs) > 0 {
		sw.Init = &ast.AssignStmt{Lhs: lhs, Tok: token.DEFINE, Rhs: rhs}
	}
	hd := "false"
	if hasDefault {
		hd = "true"
	}
	// a select whose arms all end in terminating statements is itself terminating; a switch
	// needs a default clause for that
	sw.Body.List = append(sw.Body.List, &ast.CaseClause{Body: []ast.Stmt{&ast.ExprStmt{X: &ast.CallExpr{
		Fun: ast.NewIdent("panic"), Args: []ast.Expr{&ast.BasicLit{Kind: token.STRING, Value: `"simrt: select returned an unknown arm"`}}}}}})
	args := append([]ast.Expr{site, ast.NewIdent(hd)}, cases...)
	sw.Tag = call(rt("Select"), args...)
	return sw
}

func (in *inst) atomicFunc(ce *ast.CallExpr) string {
	se, ok := ce.Fun.(*ast.SelectorExpr)
	if !ok {
		return ""
	}
	if fn, ok := in.info.Uses[se.Sel].(*types.Func); ok && fn.Pkg() != nil && fn.Pkg().Path() == "sync/atomic" {
		sig := fn.Type().(*types.Signature)
		if sig.Recv() == nil {
			return fn.Name()
		}
	}
	return ""
}

func (in *inst) callExpr(ce *ast.CallExpr, parent ast.Node) ast.Expr {
	// builtins
	if name, ok := in.builtin(ce.Fun); ok {
		switch name {
		case "close":
			if len(ce.Args) == 1 {
				switch parent.(type) {
				case *ast.DeferStmt, *ast.GoStmt:
					return call(rt("CloseCh"), in.site("close", ce), ce.Args[0])
				}
				ce.Args[0] = call(rt("CL"), in.site("close", ce), ce.Args[0])
			}
		case "len":
			// observing how full a channel is depends on what other goroutines did in the
			// meantime: a scheduling point immediately before the observation
			if len(ce.Args) == 1 {
				if t := in.info.TypeOf(ce.Args[0]); t != nil {
					if _, ok := t.Underlying().(*types.Chan); ok {
						ce.Args[0] = call(rt("LC"), in.site("chanlen", ce), ce.Args[0])
					}
				}
			}
		case "make":
			if len(ce.Args) >= 2 {
				tv := in.info.Types[ce.Args[0]]
				if sl, ok := tv.Type.Underlying().(*types.Slice); ok {
					szArg := len(ce.Args) - 1 // capacity if given, else length
					if atv, ok := in.info.Types[ce.Args[szArg]]; !ok || atv.Value == nil {
						if bt, ok := in.info.TypeOf(ce.Args[szArg]).Underlying().(*types.Basic); ok && bt.Info()&types.IsInteger != 0 {
							es := in.sizes.Sizeof(sl.Elem())
							if es < 1 {
								es = 1
							}
							ce.Args[szArg] = call(rt("AllocN"), in.site("alloc", ce), ce.Args[szArg],
								&ast.BasicLit{Kind: token.INT, Value: strconv.FormatInt(es, 10)})
						}
					}
				}
			}
		}
		return nil
	}
	// sync/atomic package functions
	if name := in.atomicFunc(ce); name != "" && len(ce.Args) > 0 {
		w := "A"
		if strings.HasPrefix(name, "Load") {
			w = "AL"
		}
		if last := len(ce.Args) - 1; last >= 1 && !in.isConstOrNil(ce.Args[last]) {
			// scheduling point immediately before the operation, after all operands (a constant
			// last operand cannot contain a scheduling point, the order is immaterial then)
			if addr, ok := cloneSimple(ce.Args[0]); ok {
				ce.Args[last] = call(rt("AV"), in.site("atomic", ce), addr, ce.Args[last])
				return nil
			}
		}
		ce.Args[0] = call(rt(w), in.site("atomic", ce), ce.Args[0])
		return nil
	}
	se, ok := ce.Fun.(*ast.SelectorExpr)
	if !ok {
		return nil
	}
	// reflect.Select, runtime.Gosched, sync.NewCond...
	if fn, ok := in.info.Uses[se.Sel].(*types.Func); ok && fn.Pkg() != nil {
		full := fn.Pkg().Path() + "." + fn.Name()
		switch full {
		case "reflect.Select", "net.Dial", "net.Listen", "net.DialTimeout":
			if fn.Type().(*types.Signature).Recv() == nil {
				in.unsupported(ce.Pos(), full+" is not modelled by the simulator")
			}
		}
	}
	sel, ok := in.info.Selections[se]
	if !ok || sel.Kind() != types.MethodVal {
		return nil
	}
	fn, ok := sel.Obj().(*types.Func)
	if !ok || fn.Pkg() == nil {
		return nil
	}
	recvT := fn.Type().(*types.Signature).Recv().Type()
	if p, ok := recvT.(*types.Pointer); ok {
		recvT = p.Elem()
	}
	named, ok := recvT.(*types.Named)
	if !ok {
		return nil
	}
	if _, isIface := named.Underlying().(*types.Interface); isIface {
		return nil
	}
	tn := named.Obj().Name()
	switch fn.Pkg().Path() {
	case "sync/atomic":
		ptr := in.recvPtr(se, sel)
		if ptr == nil {
			return nil
		}
		w := "A"
		if fn.Name() == "Load" {
			w = "AL"
		}
		if last := len(ce.Args) - 1; last >= 0 && !in.isConstOrNil(ce.Args[last]) {
			if addr, ok := cloneSimple(ptr); ok {
				ce.Args[last] = call(rt("AV"), in.site("atomic", ce), addr, ce.Args[last])
				return nil
			}
		}
		se.X = call(rt(w), in.site("atomic", ce), ptr)
		return nil
	case "sync":
		var to string
		switch tn + "." + fn.Name() {
		case "Mutex.Lock":
			to = "MutexLock"
		case "Mutex.Unlock":
			to = "MutexUnlock"
		case "Mutex.TryLock":
			to = "MutexTryLock"
		case "RWMutex.Lock":
			to = "RWLock"
		case "RWMutex.Unlock":
			to = "RWUnlock"
		case "RWMutex.RLock":
			to = "RWRLock"
		case "RWMutex.RUnlock":
			to = "RWRUnlock"
		case "RWMutex.TryLock":
			to = "RWTryLock"
		case "RWMutex.TryRLock":
			to = "RWTryRLock"
		case "WaitGroup.Add":
			to = "WGAdd"
		case "WaitGroup.Done":
			to = "WGDone"
		case "WaitGroup.Wait":
			to = "WGWait"
		case "Once.Do":
			to = "OnceDo"
		case "Cond.Wait":
			to = "CondWait"
		case "Cond.Signal":
			to = "CondSignal"
		case "Cond.Broadcast":
			to = "CondBroadcast"
		case "Map.Range":
			in.unsupported(ce.Pos(), "sync.Map.Range iterates in runtime-random order")
			return nil
		default:
			if tn == "RWMutex" {
				in.unsupported(ce.Pos(), "sync."+tn+"."+fn.Name()+" is not modelled by the simulator")
			}
			if tn == "Pool" || tn == "Map" {
				if ptr := in.recvPtr(se, sel); ptr != nil {
					se.X = call(rt("SyncObj"), in.site("sync", ce), ptr)
				}
			}
			return nil
		}
		ptr := in.recvPtr(se, sel)
		if ptr == nil {
			in.unsupported(ce.Pos(), "cannot take the address of the sync object")
			return nil
		}
		args := append([]ast.Expr{in.site("sync", ce), ptr}, ce.Args...)
		return call(rt(to), args...)
	}
	// method calls on objects that may be shared between goroutines: input to the race detector
	known, write := in.an.methodClass(fn, named, in.modPath)
	if !known {
		return nil
	}
	lib := in.isLibPkg(fn.Pkg())
	if lib && !in.concFile && !in.recvShared[se] {
		return nil
	}
	if lib && hasSyncField(named) {
		// a library type that carries its own mutex / atomics synchronises inside its methods;
		// recording "this method writes its receiver" at the call site (outside that lock) would
		// flag every pair of callers
		return nil
	}
	if in.recvLocal[se] {
		return nil
	}
	tv, ok := in.recvTV[se]
	if !ok {
		return nil
	}
	if _, isPtr := tv.Type.Underlying().(*types.Pointer); !isPtr && !tv.Addressable() {
		return nil
	}
	ptr := in.recvPtr(se, sel)
	if ptr == nil {
		return nil
	}
	w := "false"
	if write {
		w = "true"
	}
	id := in.site("p", ce)
	in.rep.Sites[len(in.rep.Sites)-1].Type = fn.Pkg().Name() + "." + tn + "." + fn.Name()
	se.X = call(rt("P"), id, ptr, ast.NewIdent(w))
	return nil
}

// hasSyncField reports whether a named struct type has a field of a type from package sync or
// sync/atomic (directly or as a pointer).
func hasSyncField(named *types.Named) bool {
	st, ok := named.Underlying().(*types.Struct)
	if !ok {
		return false
	}
	for i := 0; i < st.NumFields(); i++ {
		t := st.Field(i).Type()
		if p, ok := t.(*types.Pointer); ok {
			t = p.Elem()
		}
		if n, ok := t.(*types.Named); ok && n.Obj().Pkg() != nil {
			switch n.Obj().Pkg().Path() {
			case "sync", "sync/atomic":
				return true
			}
		}
	}
	return false
}

// rootIsShared reports whether the innermost identifier of e is a package-level variable.
func (in *inst) rootIsShared(e ast.Expr) bool {
	for {
		switch x := e.(type) {
		case *ast.ParenExpr:
			e = x.X
		case *ast.IndexExpr:
			e = x.X
		case *ast.StarExpr:
			e = x.X
		case *ast.SelectorExpr:
			if id, ok := x.X.(*ast.Ident); ok {
				if _, isPkg := in.info.Uses[id].(*types.PkgName); isPkg {
					return in.sharedVar(x.Sel) != nil
				}
			}
			e = x.X
		case *ast.Ident:
			return in.sharedVar(x) != nil
		default:
			return false
		}
	}
}

// localValue reports whether e is a plain local variable of non-pointer type (an object
// that lives in this call frame).
func (in *inst) localValue(e ast.Expr) bool {
	id, ok := unparen(e).(*ast.Ident)
	if !ok {
		return false
	}
	v, ok := in.info.Uses[id].(*types.Var)
	if !ok || v.Pkg() == nil || v.Parent() == v.Pkg().Scope() {
		return false
	}
	_, isPtr := v.Type().Underlying().(*types.Pointer)
	return !isPtr
}

func analyse(pkgs []*packages.Package, modPath string) *analysis {
	an := &analysis{decls: map[*types.Func]*ast.FuncDecl{}, infos: map[*types.Func]*types.Info{}, writes: map[*types.Func]bool{}}
	for _, p := range pkgs {
		if p.PkgPath != modPath && !strings.HasPrefix(p.PkgPath, modPath+"/") {
			continue
		}
		for _, f := range p.Syntax {
			for _, d := range f.Decls {
				fd, ok := d.(*ast.FuncDecl)
				if !ok || fd.Recv == nil || fd.Body == nil {
					continue
				}
				if fn, ok := p.TypesInfo.Defs[fd.Name].(*types.Func); ok {
					an.decls[fn] = fd
					an.infos[fn] = p.TypesInfo
				}
			}
		}
	}
	// fixpoint: a pointer-receiver method writes if it assigns through its receiver or calls a writing method on it
	for iter := 0; iter < 4; iter++ {
		changed := false
		for fn, fd := range an.decls {
			if an.writes[fn] {
				continue
			}
			if an.scanWrites(fn, fd, modPath) {
				an.writes[fn] = true
				changed = true
			}
		}
		if !changed {
			break
		}
	}
	return an
}

func baseIdent(e ast.Expr) *ast.Ident {
	for {
		switch x := e.(type) {
		case *ast.ParenExpr:
			e = x.X
		case *ast.IndexExpr:
			e = x.X
		case *ast.SliceExpr:
			e = x.X
		case *ast.StarExpr:
			e = x.X
		case *ast.SelectorExpr:
			e = x.X
		case *ast.Ident:
			return x
		default:
			return nil
		}
	}
}

func (an *analysis) scanWrites(fn *types.Func, fd *ast.FuncDecl, modPath string) bool {
	sig := fn.Type().(*types.Signature)
	if sig.Recv() == nil {
		return false
	}
	if _, ok := sig.Recv().Type().(*types.Pointer); !ok {
		return false
	}
	if len(fd.Recv.List) == 0 || len(fd.Recv.List[0].Names) == 0 {
		return false
	}
	info := an.infos[fn]
	recvObj := info.Defs[fd.Recv.List[0].Names[0]]
	if recvObj == nil {
		return false
	}
	isRecv := func(e ast.Expr) bool {
		id := baseIdent(e)
		return id != nil && info.Uses[id] == recvObj
	}
	found := false
	ast.Inspect(fd.Body, func(n ast.Node) bool {
		if found {
			return false
		}
		switch x := n.(type) {
		case *ast.AssignStmt:
			if x.Tok != token.DEFINE {
				for _, l := range x.Lhs {
					if _, plain := unparen(l).(*ast.Ident); !plain && isRecv(l) {
						found = true
					}
				}
			}
		case *ast.IncDecStmt:
			if _, plain := unparen(x.X).(*ast.Ident); !plain && isRecv(x.X) {
				found = true
			}
		case *ast.CallExpr:
			if id, ok := x.Fun.(*ast.Ident); ok && len(x.Args) > 0 {
				if _, isB := info.Uses[id].(*types.Builtin); isB && (id.Name == "copy" || id.Name == "delete" || id.Name == "clear") && isRecv(x.Args[0]) {
					found = true
				}
			}
			se, ok := x.Fun.(*ast.SelectorExpr)
			if !ok || !isRecv(se.X) {
				return true
			}
			sel, ok := info.Selections[se]
			if !ok || sel.Kind() != types.MethodVal {
				return true
			}
			callee, ok := sel.Obj().(*types.Func)
			if !ok || callee.Pkg() == nil {
				return true
			}
			rt := callee.Type().(*types.Signature).Recv().Type()
			if p, ok := rt.(*types.Pointer); ok {
				rt = p.Elem()
			}
			if named, ok := rt.(*types.Named); ok {
				if known, w := an.methodClass(callee, named, modPath); known && w {
					found = true
				}
			}
		}
		return true
	})
	return found
}

// methodClass says whether a method is known to be read-only or mutating.
func (an *analysis) methodClass(fn *types.Func, named *types.Named, modPath string) (known bool, write bool) {
	pp := fn.Pkg().Path()
	tn := named.Obj().Name()
	sig := fn.Type().(*types.Signature)
	_, ptrRecv := sig.Recv().Type().(*types.Pointer)
	switch pp + "." + tn {
	case "bytes.Buffer":
		switch fn.Name() {
		case "Bytes", "Len", "Cap", "String", "Available", "AvailableBuffer":
			return true, false
		}
		return true, true
	case "strings.Builder":
		switch fn.Name() {
		case "Len", "Cap", "String":
			return true, false
		}
		return true, true
	case "math/rand.Rand", "math/rand/v2.Rand", "bufio.Reader", "bufio.Writer", "bufio.Scanner", "bufio.ReadWriter":
		return true, true
	}
	if pp == modPath || strings.HasPrefix(pp, modPath+"/") {
		if !ptrRecv {
			return true, false
		}
		if _, ok := an.decls[fn]; !ok {
			return false, false
		}
		return true, an.writes[fn]
	}
	return false, false
}

// recvPtr builds an expression of pointer type denoting the receiver object of a method
// selection, making promoted (embedded) paths explicit.
func (in *inst) recvPtr(se *ast.SelectorExpr, sel *types.Selection) ast.Expr {
	x := se.X
	t := in.info.TypeOf(x)
	if t == nil {
		// the receiver expression was already rewritten (e.g. a package-level variable wrapped
		// in a shared-access gate): use the type recorded before rewriting
		if tv, ok := in.recvTV[se]; ok {
			t = tv.Type
		}
	}
	if t == nil {
		return nil
	}
	idx := sel.Index()
	for _, i := range idx[:len(idx)-1] {
		if p, ok := t.Underlying().(*types.Pointer); ok {
			t = p.Elem()
		}
		st, ok := t.Underlying().(*types.Struct)
		if !ok {
			return nil
		}
		f := st.Field(i)
		x = &ast.SelectorExpr{X: x, Sel: ast.NewIdent(f.Name())}
		t = f.Type()
	}
	if _, ok := t.Underlying().(*types.Pointer); ok {
		return x
	}
	return &ast.UnaryExpr{Op: token.AND, X: x}
}

// splitRMW turns `x++`, `x op= e` and `x = e` on a shared plain variable into an explicit
// load ... store pair with a scheduling point in between (what the hardware does).
func (in *inst) splitRMW(lhs ast.Expr, tok token.Token, rhs ast.Expr, orig ast.Stmt) ast.Stmt {
	var root ast.Expr = unparen(lhs)
	var v *types.Var
	switch x := root.(type) {
	case *ast.Ident:
		v = in.sharedVar(x)
	case *ast.SelectorExpr:
		if id, ok := x.X.(*ast.Ident); ok {
			if _, isPkg := in.info.Uses[id].(*types.PkgName); isPkg {
				v = in.sharedVar(x.Sel)
			}
		}
	}
	if v == nil {
		return nil
	}
	if _, ok := v.Type().Underlying().(*types.Basic); !ok {
		return nil
	}
	clone := func() ast.Expr {
		switch x := root.(type) {
		case *ast.Ident:
			id := &ast.Ident{Name: x.Name, NamePos: x.NamePos}
			in.info.Uses[id] = in.info.Uses[x]
			return id
		case *ast.SelectorExpr:
			pid := x.X.(*ast.Ident)
			np := &ast.Ident{Name: pid.Name, NamePos: pid.NamePos}
			in.info.Uses[np] = in.info.Uses[pid]
			ns := &ast.Ident{Name: x.Sel.Name, NamePos: x.Sel.NamePos}
			in.info.Uses[ns] = in.info.Uses[x.Sel]
			return &ast.SelectorExpr{X: np, Sel: ns}
		}
		return nil
	}
	var val ast.Expr
	switch tok {
	case token.INC:
		val = &ast.BinaryExpr{X: clone(), Op: token.ADD, Y: &ast.BasicLit{Kind: token.INT, Value: "1"}}
	case token.DEC:
		val = &ast.BinaryExpr{X: clone(), Op: token.SUB, Y: &ast.BasicLit{Kind: token.INT, Value: "1"}}
	case token.ASSIGN:
		if in.isConstOrNil(rhs) {
			return nil
		}
		val = rhs
	default:
		op, ok := assignOps[tok]
		if !ok {
			return nil
		}
		if op == token.SHL || op == token.SHR {
			return nil
		}
		val = &ast.BinaryExpr{X: clone(), Op: op, Y: &ast.ParenExpr{X: rhs}}
	}
	t := in.tmp("T")
	store := clone()
	in.markRoot(store)
	in.rep.Counts["rmw-split"]++
	return &ast.BlockStmt{List: []ast.Stmt{
		&ast.AssignStmt{Lhs: []ast.Expr{t}, Tok: token.DEFINE, Rhs: []ast.Expr{val}},
		&ast.AssignStmt{Lhs: []ast.Expr{store}, Tok: token.ASSIGN, Rhs: []ast.Expr{t}},
	}}
}

var assignOps = map[token.Token]token.Token{
	token.ADD_ASSIGN: token.ADD, token.SUB_ASSIGN: token.SUB, token.MUL_ASSIGN: token.MUL, token.QUO_ASSIGN: token.QUO,
	token.REM_ASSIGN: token.REM, token.AND_ASSIGN: token.AND, token.OR_ASSIGN: token.OR, token.XOR_ASSIGN: token.XOR,
	token.SHL_ASSIGN: token.SHL, token.SHR_ASSIGN: token.SHR, token.AND_NOT_ASSIGN: token.AND_NOT,
}

var _ = constant.MakeInt64

// WriteSiteTable writes the generated site table into the simrt package of the scratch copy.
func (r *Report) WriteSiteTable(path string) error {
	var b bytes.Buffer
	b.WriteString("// Code generated by verifgen. DO NOT EDIT.\n\npackage simrt\n\nfunc init() {\n\tInitSites([]SiteInfo{\n")
	for _, s := range r.Sites {
		fmt.Fprintf(&b, "\t\t{Name: %q, Pkg: %q, Kind: %q, Func: %q, Text: %q, Type: %q},\n", s.Name, s.Pkg, s.Kind, s.Func, s.Text, s.Type)
	}
	b.WriteString("\t})\n}\n")
	return os.WriteFile(path, b.Bytes(), 0o644)
}
