#!/bin/bash
# usage: tools/mutest.sh <patch.diff> <property> [extra vcheck args]
# Runs a check against a seeded change WITHOUT touching /repo's working tree: the change is
# applied to a fresh scratch worktree of /repo HEAD, the check is pointed at it with -repo, and
# the worktree is removed afterwards. Evidence of these sensitivity runs goes to a scratch
# directory, never to /verif/evidence.
set -u
patch=$(readlink -f "$1"); prop=$2; shift 2
wt=$(mktemp -d /tmp/mutest-wt-XXXXXX); rmdir "$wt"
git -C /repo worktree add -q --detach "$wt" HEAD || exit 2
export VERIF_EVIDENCE_DIR=$(mktemp -d /tmp/mutest-ev-XXXXXX)
cleanup() { git -C /repo worktree remove --force "$wt" 2>/dev/null; rm -rf "$wt" "$VERIF_EVIDENCE_DIR"; }
trap cleanup EXIT
if ! git -C "$wt" apply "$patch" 2>/tmp/mutest.apply.err.$$; then
  echo "APPLY-FAILED"; cat /tmp/mutest.apply.err.$$; rm -f /tmp/mutest.apply.err.$$; echo "mutest: exit=2"; exit 2
fi
rm -f /tmp/mutest.apply.err.$$
cd /verif
${VCHECK:-./bin/vcheck} -repo "$wt" -property "$prop" "$@" 2>&1 | grep -v "^instrumented" | tail -14
rc=${PIPESTATUS[0]}
echo "mutest: exit=$rc"
exit $rc
