#!/bin/bash
# usage: tools/mutest.sh <patch.diff> <property> [extra vcheck args]
# applies a seeded change to /repo, runs the check, and ALWAYS reverts /repo.
# Evidence of these sensitivity runs goes to a scratch directory, never to /verif/evidence.
set -u
patch=$1; prop=$2; shift 2
cd /repo || exit 2
if ! git diff --quiet; then echo "repo dirty, refusing"; exit 2; fi
if ! git apply "$patch" 2>/tmp/mutest.apply.err; then
  echo "APPLY-FAILED"; cat /tmp/mutest.apply.err; git checkout -- .; exit 2
fi
cd /verif
export VERIF_EVIDENCE_DIR=$(mktemp -d /tmp/mutest-ev-XXXXXX)
./bin/vcheck -property "$prop" "$@" 2>&1 | grep -v "^instrumented" | tail -14
rc=${PIPESTATUS[0]}
rm -rf "$VERIF_EVIDENCE_DIR"
git -C /repo checkout -- .; git -C /repo clean -fdq
echo "mutest: exit=$rc"
exit $rc
