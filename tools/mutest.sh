#!/bin/bash
# usage: tools/mutest.sh <patch.diff> <property> [extra vcheck args]
# applies a seeded change to /repo, runs the check, and ALWAYS reverts /repo.
set -u
patch=$1; prop=$2; shift 2
cd /repo || exit 2
if ! git diff --quiet; then echo "repo dirty, refusing"; exit 2; fi
if ! git apply --3way "$patch" 2>/tmp/mutest.apply.err; then
  if ! patch -p1 --no-backup-if-mismatch < "$patch" >/tmp/mutest.apply.err 2>&1; then
    echo "APPLY-FAILED"; cat /tmp/mutest.apply.err; git reset --hard -q HEAD; git clean -fdq; exit 2
  fi
fi
git reset -q
cd /verif
./bin/vcheck -property "$prop" "$@" 2>&1 | grep -v "^instrumented" | tail -12
rc=${PIPESTATUS[0]}
git -C /repo reset --hard -q HEAD; git -C /repo clean -fdq
echo "mutest: exit=$rc"
exit $rc
