#!/bin/bash
# usage: tools/import_mut.sh <src dir with patch.diff demo_test.go README.md> <id> <demo dest> <go test args...>
# copies a sub-agent's change into /verif/seeded/<id>/ and confirms it (tools/confirm_seeded.sh).
src=$1; id=$2; shift 2
mkdir -p /verif/seeded/$id && cp $src/patch.diff $src/demo_test.go $src/README.md /verif/seeded/$id/ && /verif/tools/confirm_seeded.sh $id "$@"
