#!/bin/bash
# usage: tools/confirm_seeded.sh <id> <demo destination relative to repo root> <go test args for the demo...>
# Confirms a seeded change in a scratch worktree of /repo HEAD: without the change the
# existing tests and the demonstration pass; with it the tree still builds, the existing tests
# still pass and the demonstration fails. Prints one summary line; exit 0 = confirmed.
set -u
export GOFLAGS=-mod=mod GOPROXY=off GOSUMDB=off GOTOOLCHAIN=local
id=$1; dest=$2; shift 2
dir=/verif/seeded/$id
wt=$(mktemp -d /tmp/wt-confirm-XXXXXX)
rmdir "$wt"
git -C /repo worktree add -q --detach "$wt" HEAD || exit 2
cleanup() { git -C /repo worktree remove --force "$wt" 2>/dev/null; rm -rf "$wt"; }
trap cleanup EXIT
cd "$wt"
# the pinned tests, without the demonstration in the tree
base_tests() { rm -f "$wt/$dest"; go build ./... && go test -vet=off -count=1 ./openflow13/ ./protocol/ >/dev/null 2>&1; rc=$?; cp "$dir/demo_test.go" "$wt/$dest"; return $rc; }
base_tests; bt0=$?
timeout 600 go test -vet=off -count=1 "$@" >/tmp/confirm.$id.clean.log 2>&1; d0=$?
git apply "$dir/patch.diff" || { echo "$id: APPLY-FAILED"; exit 2; }
base_tests; bt1=$?
timeout 600 go test -vet=off -count=1 "$@" >/tmp/confirm.$id.mut.log 2>&1; d1=$?
res=confirmed
[ $bt0 -eq 0 ] && [ $d0 -eq 0 ] && [ $bt1 -eq 0 ] && [ $d1 -ne 0 ] || res=NOT-CONFIRMED
echo "$id: $res (clean: tests=$bt0 demo=$d0; changed: tests=$bt1 demo=$d1)"
[ "$res" = confirmed ]
