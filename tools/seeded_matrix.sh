#!/bin/bash
# usage: tools/seeded_matrix.sh [-w] [id...]   (default: every directory under /verif/seeded)
# Runs the quick check of the property each seeded change targets (plus the extra properties
# listed in its meta.json "also") and prints one line per (change, property). With -w the
# outcome is also written into meta.json (checks_run).
cd /verif
write=0; [ "${1:-}" = "-w" ] && { write=1; shift; }
ids="$@"; [ -z "$ids" ] && ids=$(ls seeded)
for id in $ids; do
  props=$(python3 -c "
import json
try:
  m=json.load(open('seeded/$id/meta.json')); print(' '.join([m['property']]+m.get('also',[])))
except Exception: print('$id'.split('-')[0])")
  for p in $props; do
    out=$(tools/mutest.sh /verif/seeded/$id/patch.diff $p 2>&1)
    rc=$(echo "$out" | sed -n 's/^mutest: exit=//p')
    cls=$(echo "$out" | sed -n 's/^vcheck: violation oracle=\([^ ]*\) class=\(.*\) site=\([^ ]*\).*/\1\/\2/p' | sort -u | head -4 | tr '\n' ';')
    echo "$id $p exit=$rc $cls"
    if [ $write = 1 ]; then python3 - "$id" "$p" "exit=$rc $cls" <<'PY'
import json,sys
f='/verif/seeded/%s/meta.json'%sys.argv[1]
m=json.load(open(f)); m.setdefault('checks_run',{})[sys.argv[2]]=sys.argv[3]; json.dump(m,open(f,'w'),indent=1)
PY
    fi
  done
done
