#!/bin/bash
# usage: tools/benign_matrix.sh [id...]  — every claimed check must exit 0 on every property-preserving variant
cd /verif
ids="$@"; [ -z "$ids" ] && ids=$(ls benign | grep -v agent-tests)
props=$(python3 -c "import json;print(' '.join(c['property_id'] for c in json.load(open('MANIFEST.json'))['checks']))")
for id in $ids; do
  for p in $props; do
    out=$(tools/mutest.sh /verif/benign/$id/patch.diff $p 2>&1)
    rc=$(echo "$out" | sed -n 's/^mutest: exit=//p')
    cls=$(echo "$out" | sed -n 's/^vcheck: violation oracle=\([^ ]*\) class=\(.*\) site=\([^ ]*\).*/\1\/\2/p' | sort -u | head -3 | tr '\n' ';')
    [ "$rc" = 0 ] || echo "$out" | tail -5 | cut -c1-300
    echo "$id $p exit=$rc $cls"
  done
done
