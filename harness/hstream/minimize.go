package main

import (
	"encoding/json"
	"fmt"
	"os"
	"runtime"
	"time"

	"github.com/contiv/libOpenflow/cmd/hlib"
	"github.com/contiv/libOpenflow/simrt"
)

func cloneScenario(sc *Scenario) *Scenario {
	b, _ := json.Marshal(sc)
	var c Scenario
	json.Unmarshal(b, &c)
	return &c
}

type minimizer struct {
	target   hlib.Violation
	best     *Scenario
	bestDec  []simrt.Decision
	deadline time.Time
	tries    int
	verbose  bool
}

// reproduces runs a candidate under the recorded decisions (tolerant replay), then under
// its own seeded strategy; on success it returns the full decision trace of that run.
func (m *minimizer) reproduces(sc *Scenario, dec []simrt.Decision) ([]simrt.Decision, bool) {
	m.tries++
	if heapBig() {
		runtime.GC() // the collector is off during runs; candidates of a long scenario leave gigabytes behind
	}
	for attempt := 0; attempt < 2; attempt++ {
		var o *outcome
		c := cloneScenario(sc)
		if attempt == 0 {
			if dec == nil {
				continue
			}
			o = runScenario(c, dec, true)
		} else {
			o = runScenario(c, nil, true)
		}
		if o.trouble != "" {
			continue
		}
		for _, v := range o.viol {
			if sameClass(&v, &m.target) {
				return o.trace, true
			}
		}
	}
	return nil, false
}

func (m *minimizer) try(c *Scenario) bool {
	if time.Now().After(m.deadline) {
		return false
	}
	if tr, ok := m.reproduces(c, m.bestDec); ok {
		m.best, m.bestDec = c, tr
		return true
	}
	return false
}

func removeFrames(sc *Scenario, a, b int) *Scenario {
	c := cloneScenario(sc)
	off := 0
	cutLo, cutLen := 0, 0
	for i := range c.Frames {
		if i == a {
			cutLo = off
		}
		if i >= a && i < b {
			cutLen += c.Frames[i].Size
		}
		off += c.Frames[i].Size
	}
	c.Frames = append(c.Frames[:a:a], c.Frames[b:]...)
	if c.Failure != nil {
		switch {
		case c.Failure.AtByte >= cutLo+cutLen:
			c.Failure.AtByte -= cutLen
		case c.Failure.AtByte > cutLo:
			c.Failure.AtByte = cutLo
		}
	}
	for i := range c.Arrivals {
		if c.Arrivals[i].Upto >= cutLo+cutLen {
			c.Arrivals[i].Upto -= cutLen
		} else if c.Arrivals[i].Upto > cutLo {
			c.Arrivals[i].Upto = cutLo
		}
	}
	return c
}

func (m *minimizer) shrinkList(n func() int, remove func(a, b int) *Scenario) {
	for chunk := (n() + 1) / 2; chunk >= 1; {
		progress := false
		for a := 0; a < n(); {
			b := a + chunk
			if b > n() {
				b = n()
			}
			if m.try(remove(a, b)) {
				progress = true
			} else {
				a = b
			}
			if time.Now().After(m.deadline) {
				return
			}
		}
		if chunk == 1 && !progress {
			break
		}
		if chunk > 1 {
			chunk /= 2
		}
	}
}

func (m *minimizer) run() {
	// 1. drop frames
	m.shrinkList(func() int { return len(m.best.Frames) }, func(a, b int) *Scenario { return removeFrames(m.best, a, b) })
	// 1b. drop direct inputs
	m.shrinkList(func() int { return len(m.best.Direct) }, func(a, b int) *Scenario {
		c := cloneScenario(m.best)
		c.Direct = append(c.Direct[:a:a], c.Direct[b:]...)
		return c
	})
	// 2. drop producers, then messages
	m.shrinkList(func() int { return len(m.best.Producers) }, func(a, b int) *Scenario {
		c := cloneScenario(m.best)
		c.Producers = append(c.Producers[:a:a], c.Producers[b:]...)
		c.WriteStalls = nil
		return c
	})
	for pi := 0; pi < len(m.best.Producers); pi++ {
		pi := pi
		m.shrinkList(func() int { return len(m.best.Producers[pi].Msgs) }, func(a, b int) *Scenario {
			c := cloneScenario(m.best)
			ms := c.Producers[pi].Msgs
			// keep "same" entries attached to a real message
			nb := b
			for nb < len(ms) && ms[nb].Kind == "same" {
				nb++
			}
			if a > 0 && ms[a].Kind == "same" {
				nb = b
			}
			c.Producers[pi].Msgs = append(ms[:a:a], ms[nb:]...)
			if len(c.Producers[pi].Msgs) > 0 && c.Producers[pi].Msgs[0].Kind == "same" {
				c.Producers[pi].Msgs = c.Producers[pi].Msgs[1:]
			}
			return c
		})
	}
	// 3. simplify knobs
	simp := []func(c *Scenario) bool{
		func(c *Scenario) bool { ok := c.Chunks != nil; c.Chunks = nil; return ok },
		func(c *Scenario) bool { ok := c.EmptyReads != nil; c.EmptyReads = nil; return ok },
		func(c *Scenario) bool { ok := c.Arrivals != nil; c.Arrivals = nil; return ok },
		func(c *Scenario) bool { ok := c.StepCost != 0; c.StepCost = 0; return ok },
		func(c *Scenario) bool { ok := c.ParserDelay != 0; c.ParserDelay = 0; return ok },
		func(c *Scenario) bool { ok := c.Consumer.ThinkMax != 0; c.Consumer.ThinkMax = 0; return ok },
		func(c *Scenario) bool { ok := c.Consumer.Stalls != nil; c.Consumer.Stalls = nil; return ok },
		func(c *Scenario) bool { ok := c.Consumer.Sleeps != nil; c.Consumer.Sleeps = nil; return ok },
		func(c *Scenario) bool { ok := c.Trailer != 0; c.Trailer = 0; return ok },
		func(c *Scenario) bool { ok := c.Tail != ""; c.Tail = ""; return ok },
		func(c *Scenario) bool { ok := c.ShutdownAfter != 0; c.ShutdownAfter = 0; return ok },
		func(c *Scenario) bool { ok := c.Failure != nil; c.Failure = nil; return ok },
		func(c *Scenario) bool { ok := c.WriteStalls != nil; c.WriteStalls = nil; return ok },
		func(c *Scenario) bool { ok := c.PartialWrite != 0; c.PartialWrite = 0; return ok },
		func(c *Scenario) bool { ok := c.SharedCodec; c.SharedCodec = false; return ok },
		func(c *Scenario) bool { ok := c.Scribble; c.Scribble = false; return ok },
		func(c *Scenario) bool { ok := c.Consumer.StopAfter != 0; c.Consumer.StopAfter = 0; return ok },
		func(c *Scenario) bool {
			ok := c.Strategy.Kind != "uniform"
			c.Strategy = simrt.StrategySpec{Kind: "uniform", Seed: c.Strategy.Seed, Arm: c.Strategy.Arm}
			return ok
		},
		func(c *Scenario) bool {
			ok := false
			for i := range c.Producers {
				if c.Producers[i].ThinkMax != 0 {
					c.Producers[i].ThinkMax = 0
					ok = true
				}
			}
			return ok
		},
	}
	for _, f := range simp {
		c := cloneScenario(m.best)
		if f(c) {
			m.try(c)
		}
	}
	// shorten the chunk plan
	for len(m.best.Chunks) > 0 {
		c := cloneScenario(m.best)
		c.Chunks = c.Chunks[:len(c.Chunks)/2]
		if len(c.Chunks) == 0 {
			c.Chunks = nil
		}
		if !m.try(c) {
			break
		}
	}
	// 4. shrink frame and message sizes (descriptor-built kinds only)
	for i := 0; i < len(m.best.Frames); i++ {
		f := m.best.Frames[i]
		if f.Hex != "" || f.Size <= 8 {
			continue
		}
		for _, ns := range []int{8, 12, 16, f.Size / 2} {
			if ns >= f.Size {
				continue
			}
			c := cloneScenario(m.best)
			delta := c.Frames[i].Size - ns
			c.Frames[i].Size = ns
			c.Frames[i].bytes = nil
			// rebuild to learn the real size (kinds round sizes)
			if _, err := c.Frames[i].Build(); err != nil {
				continue
			}
			delta = f.Size - c.Frames[i].Size
			if delta <= 0 {
				continue
			}
			off := 0
			for j := 0; j <= i; j++ {
				off += m.best.Frames[j].Size
			}
			if c.Failure != nil && c.Failure.AtByte >= off {
				c.Failure.AtByte -= delta
			}
			c.Chunks = nil
			if m.try(c) {
				break
			}
		}
	}
	for pi := range m.best.Producers {
		for i := range m.best.Producers[pi].Msgs {
			om := m.best.Producers[pi].Msgs[i]
			if om.Kind != "raw" && om.Kind != "buffer" {
				continue
			}
			for _, ns := range []int{8, 16, om.Size / 2} {
				if ns >= om.Size {
					continue
				}
				c := cloneScenario(m.best)
				c.Producers[pi].Msgs[i].Size = ns
				if m.try(c) {
					break
				}
			}
		}
	}
	// 5. shortest decision prefix that still reproduces under the default policy afterwards
	lo, hi := 0, len(m.bestDec)
	for lo < hi && !time.Now().After(m.deadline) {
		mid := (lo + hi) / 2
		m.tries++
		o := runScenario(cloneScenario(m.best), m.bestDec[:mid:mid], true)
		ok := false
		if o.trouble == "" {
			for _, v := range o.viol {
				if sameClass(&v, &m.target) {
					ok = true
				}
			}
		}
		if ok {
			hi = mid
		} else {
			lo = mid + 1
		}
	}
	if hi < len(m.bestDec) {
		o := runScenario(cloneScenario(m.best), append([]simrt.Decision{}, m.bestDec[:hi]...), true)
		for _, v := range o.viol {
			if sameClass(&v, &m.target) {
				m.bestDec = o.trace
			}
		}
	}
}

func minimizeMode(in, out string, verbose bool) int {
	rf, err := loadReplay(in)
	if err != nil {
		fmt.Fprintln(os.Stderr, "hstream:", err)
		return 2
	}
	m := &minimizer{target: rf.Violation, best: rf.Scenario, bestDec: unflatten(rf.Decisions), deadline: time.Now().Add(90 * time.Second), verbose: verbose}
	tr, ok := m.reproduces(rf.Scenario, m.bestDec)
	if !ok {
		fmt.Fprintln(os.Stderr, "hstream: minimize: the recorded violation does not reproduce in-process")
		return 3
	}
	m.bestDec = tr
	m.run()
	// final, exact run
	final := cloneScenario(m.best)
	o := runScenario(final, m.bestDec, true)
	var got *hlib.Violation
	for i := range o.viol {
		if sameClass(&o.viol[i], &m.target) {
			got = &o.viol[i]
		}
	}
	if got == nil {
		fmt.Fprintln(os.Stderr, "hstream: minimize: final candidate lost the violation")
		return 3
	}
	materialise(final)
	res := ReplayFile{Property: rf.Property, RunSeed: rf.RunSeed, Tree: rf.Tree, Scenario: final, Decisions: flatten(o.trace),
		Violation: *got, Hash: o.res.Hash, Steps: o.res.Steps, Minimised: true}
	res.Violation.Scenario = nil
	res.Violation.Trace = nil
	b, _ := json.MarshalIndent(res, "", " ")
	if err := os.WriteFile(out, b, 0o644); err != nil {
		fmt.Fprintln(os.Stderr, "hstream:", err)
		return 2
	}
	fmt.Printf("minimised: frames %d->%d, decisions %d->%d, %d candidate runs\n", len(rf.Scenario.Frames), len(final.Frames), len(rf.Decisions)/2, len(o.trace), m.tries)
	return 0
}
