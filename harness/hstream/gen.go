package main

import (
	"fmt"
	"sort"

	"github.com/contiv/libOpenflow/simrt"
	"github.com/contiv/libOpenflow/util"
)

func buildOut(m *OutMsg) (util.Message, error) {
	switch m.Kind {
	case "raw":
		return &rawMsg{b: m.Build()}, nil
	case "buffer":
		return util.NewBuffer(append([]byte(nil), m.Build()...)), nil
	}
	if libOut != nil {
		return libOut(m)
	}
	return nil, fmt.Errorf("unknown outbound kind %q", m.Kind)
}

func expectedOut(m *OutMsg) ([]byte, error) {
	switch m.Kind {
	case "raw", "buffer":
		return m.Build(), nil
	}
	// twin object, encoded once
	if m.expected != nil {
		return m.expected, nil
	}
	t, err := buildOut(m)
	if err != nil {
		return nil, err
	}
	b, err := t.MarshalBinary()
	if err != nil {
		return nil, err
	}
	m.expected = b
	return b, nil
}

var libOut func(m *OutMsg) (util.Message, error)

var taskClasses = []string{"consumer", "parser", "reader", "shutdown", "writer", "producer", "drain", "errwatch"}

func genStrategy(r *simrt.RNG, horizon int) simrt.StrategySpec {
	sp := simrt.StrategySpec{Seed: r.Uint64()}
	sp.Arm = []string{"uniform", "first", "last"}[r.Pick(2, 1, 1)]
	switch r.Pick(20, 25, 25, 30) {
	case 0:
		sp.Kind = "uniform"
	case 1:
		sp.Kind = "sticky"
		sp.P = []float64{0.5, 0.9, 0.99}[r.Intn(3)]
	case 2:
		sp.Kind = "pct"
		sp.Depth = r.Intn(7)
		sp.Horizon = horizon
	case 3:
		sp.Kind = "starve"
		sp.Class = taskClasses[r.Pick(30, 20, 15, 10, 10, 10, 3, 2)]
		n := 1 + r.Intn(3)
		for i := 0; i < n; i++ {
			a := r.Intn(horizon)
			l := 10 + r.Intn(horizon/2+1)
			sp.Windows = append(sp.Windows, [2]int{a, a + l})
		}
	}
	return sp
}

func genFrameSize(r *simrt.RNG, big *int) int {
	switch r.Pick(10, 40, 20, 10, 15, 5) {
	case 0:
		return 8
	case 1:
		return r.Range(9, 64)
	case 2:
		return r.Range(65, 2047)
	case 3:
		return []int{2047, 2048, 2049, 2050, 2051, 2052, 4095, 4096, 4097, 255, 256, 257, 511, 512, 513}[r.Intn(15)]
	case 4:
		return r.Range(2050, 8192)
	}
	if *big >= 2 {
		return r.Range(65, 2047)
	}
	*big++
	if r.Chance(0.2) {
		return 65535
	}
	return r.Range(8193, 65535)
}

func genSimpleFrame(r *simrt.RNG, xid uint32, big *int) Frame {
	size := genFrameSize(r, big)
	var kind string
	switch {
	case size == 8:
		kind = []string{"echo_req", "echo_rep", "barrier_req", "barrier_rep", "features_req", "getconfig_req"}[r.Intn(6)]
	case size == 12 && r.Chance(0.5):
		kind = []string{"getconfig_rep", "setconfig", "hello"}[r.Intn(3)]
	default:
		kind = []string{"echo_req", "echo_rep", "error", "hello"}[r.Pick(35, 15, 40, 10)]
		if kind == "error" && size < 12 {
			size = 12
		}
		if kind == "hello" {
			size = 12 + 4*((size-12+3)/4)
			if size < 12 {
				size = 12
			}
			if size > 65532 {
				size = 65532
			}
		}
	}
	return Frame{Kind: kind, Size: size, Xid: xid, Seed: r.Uint64()}
}

// genChunks produces the read plan from the frame layout.
func genChunks(r *simrt.RNG, bounds []int, total int) []int {
	if total == 0 {
		return nil
	}
	mode := r.Pick(15, 10, 15, 20, 40)
	var chunks []int
	switch mode {
	case 0: // whole reads (bounded only by the reader's buffer)
		return nil
	case 1: // single-byte dribble (bounded to keep runs short)
		n := total
		if n > 6000 {
			n = 6000
		}
		for i := 0; i < n; i++ {
			chunks = append(chunks, 1)
		}
		return chunks
	case 2: // small random
		for got := 0; got < total && len(chunks) < 20000; {
			c := r.Range(1, 16)
			chunks = append(chunks, c)
			got += c
		}
		return chunks
	case 3: // any size
		for got := 0; got < total && len(chunks) < 20000; {
			c := r.Range(1, 4096)
			chunks = append(chunks, c)
			got += c
		}
		return chunks
	}
	// frame-relative cuts: inside the prefix, the header, just before the end, at buffer multiples
	cutset := map[int]bool{}
	p := []float64{0.1, 0.3, 0.6, 1.0}[r.Intn(4)]
	for i := 0; i+1 < len(bounds); i++ {
		s, e := bounds[i], bounds[i+1]
		if !r.Chance(p) {
			continue
		}
		for _, off := range []int{0, 1, 2, 3, 4, 7, 8} {
			if r.Chance(0.4) && s+off < e {
				cutset[s+off] = true
			}
		}
		if r.Chance(0.4) {
			cutset[e-1] = true
		}
		for m := 2048; s+m < e; m += 2048 {
			if r.Chance(0.5) {
				cutset[s+m+r.Range(-1, 1)] = true
			}
		}
		if e-s > 16 && r.Chance(0.3) {
			cutset[s+r.Range(9, e-s-1)] = true
		}
	}
	var cuts []int
	for c := range cutset {
		if c > 0 && c < total {
			cuts = append(cuts, c)
		}
	}
	sort.Ints(cuts)
	prev := 0
	for _, c := range cuts {
		// a cut further away than the reader's buffer needs intermediate full reads
		for c-prev > 2048 {
			chunks = append(chunks, 2048)
			prev += 2048
		}
		if c > prev {
			chunks = append(chunks, c-prev)
			prev = c
		}
	}
	return chunks
}

func genInbound(r *simrt.RNG, sc *Scenario, faulty bool, frameGen func(r *simrt.RNG, xid uint32, big *int) Frame) {
	var n int
	switch r.Pick(1, 4, 25, 50, 20) {
	case 0:
		n = 0
	case 1:
		n = 1
	case 2:
		n = r.Range(2, 5)
	case 3:
		n = r.Range(6, 60)
	case 4:
		n = r.Range(61, 400)
	}
	big := 0
	bounds := []int{0}
	total := 0
	for i := 0; i < n; i++ {
		f := frameGen(r, uint32(0x100+i), &big)
		if total+f.Size > 600_000 {
			break
		}
		if _, err := f.Build(); err != nil {
			panic("harness: " + err.Error())
		}
		sc.Frames = append(sc.Frames, f)
		total += f.Size
		bounds = append(bounds, total)
	}
	if r.Chance(0.25) {
		sc.Trailer = r.Range(1, 40)
	}
	wire := total + sc.Trailer
	sc.Chunks = genChunks(r, append(bounds, wire), wire)
	if !faulty {
		return
	}
	if r.Chance(0.3) {
		k := 1 + r.Intn(5)
		for i := 0; i < k; i++ {
			sc.EmptyReads = append(sc.EmptyReads, r.Intn(len(sc.Chunks)+4))
		}
		sort.Ints(sc.EmptyReads)
	}
	if r.Chance(0.25) && wire > 0 {
		// trickle: bursts with gaps
		k := 1 + r.Intn(6)
		pts := []int{}
		for i := 0; i < k; i++ {
			pts = append(pts, r.Intn(wire+1))
		}
		sort.Ints(pts)
		for _, p := range pts {
			sc.Arrivals = append(sc.Arrivals, Arrival{Upto: p, DelayUS: []int{0, 200, 50000, 2000000, 11000000, 45000000}[r.Pick(30, 25, 20, 10, 10, 5)]})
		}
		sc.Arrivals = append(sc.Arrivals, Arrival{Upto: wire, DelayUS: r.Intn(1000)})
	}
	if r.Chance(0.6) {
		f := &Failure{Kind: []string{"eof", "reset", "timeout"}[r.Pick(50, 35, 15)]}
		switch r.Pick(30, 15, 20, 10, 20, 5) {
		case 0: // at a frame boundary
			f.AtByte = bounds[r.Intn(len(bounds))]
		case 1: // inside a prefix
			f.AtByte = bounds[r.Intn(len(bounds))] + r.Range(1, 3)
		case 2: // mid body
			f.AtByte = r.Intn(wire + 1)
		case 3: // right after the first frame
			if len(bounds) > 1 {
				f.AtByte = bounds[1]
			}
		case 4: // after the last byte
			f.AtByte = wire
		case 5:
			f.AtByte = 0
		}
		if f.AtByte > wire {
			f.AtByte = wire
		}
		sc.Failure = f
	}
	if r.Chance(0.15) {
		sc.ShutdownAfter = 1 + r.Intn(20+12*len(sc.Frames))
	}
	// consumer behaviour
	switch r.Pick(30, 30, 25, 8, 7) {
	case 0:
	case 1:
		sc.Consumer.ThinkMax = []int{1, 3, 10, 40}[r.Intn(4)]
	case 2:
		k := 1 + r.Intn(3)
		for i := 0; i < k; i++ {
			sc.Consumer.Stalls = append(sc.Consumer.Stalls, [2]int{r.Intn(len(sc.Frames) + 1), r.Range(50, 200+30*len(sc.Frames))})
		}
		sc.Consumer.ThinkMax = r.Intn(3)
	case 3:
		sc.Consumer.StopAfterError = true
	case 4:
		sc.Consumer.StopAfter = 1 + r.Intn(len(sc.Frames)+1)
	}
	if r.Chance(0.15) {
		// the application is busy for up to a minute of simulated time once or twice
		k := 1 + r.Intn(2)
		for i := 0; i < k; i++ {
			sc.Consumer.Sleeps = append(sc.Consumer.Sleeps, [2]int{r.Intn(len(sc.Frames) + 1), []int{5, 500, 9000, 11000, 30000, 60000}[r.Intn(6)]})
		}
	}
	if r.Chance(0.3) {
		sc.ParserDelay = []int{1, 5, 20, 50}[r.Intn(4)]
	}
	if r.Chance(0.2) {
		sc.StepCost = []int{1, 100, 10000}[r.Intn(3)]
	}
}

// genGoStall: in some runs goroutines of the code under test are descheduled for a while at
// their synchronisation points.
func genGoStall(r *simrt.RNG, sc *Scenario, p float64) {
	if !r.Chance(p) {
		return
	}
	sc.GoStall = &GoStall{PerMille: []int{0, 2, 10}[r.Intn(3)], ArrivalPerMille: []int{100, 300, 600}[r.Intn(3)], MaxUS: []int{1000, 100000, 2000000}[r.Intn(3)]}
}

func horizonOf(sc *Scenario) int {
	h := 200 + 14*len(sc.Frames)
	for _, p := range sc.Producers {
		h += 6 * len(p.Msgs)
	}
	return h
}

func genC10(seed uint64) *Scenario {
	r := simrt.NewRNG(seed)
	sc := &Scenario{Property: "C10", RunSeed: seed}
	if r.Chance(1.0 / 800) {
		genInboundMarathon(r, sc)
		sc.Strategy = genStrategy(r, 800000)
		return sc
	}
	faulty := !r.Chance(0.25)
	sc.Class = "fault-free"
	if faulty {
		sc.Class = "faulty"
	}
	fg := genSimpleFrame
	if r.Chance(0.3) {
		// frames of the all-kinds corpus (parseable on the current tree): the "delivered
		// message stays unchanged while buffers are recycled" clause needs real decoders
		fg = genCorpusFrame(0)
	}
	genInbound(r, sc, faulty, fg)
	// some full-duplex runs
	if r.Chance(0.15) {
		genProducers(r, sc, 3, 20)
	}
	genGoStall(r, sc, 0.12)
	sc.Strategy = genStrategy(r, horizonOf(sc))
	return sc
}

func genOutSize(r *simrt.RNG, big *int) int {
	switch r.Pick(15, 45, 20, 10, 8, 2) {
	case 0:
		return 8
	case 1:
		return r.Range(9, 128)
	case 2:
		return r.Range(129, 2047)
	case 3:
		return []int{2047, 2048, 2049, 4096, 4097, 1460, 1461}[r.Intn(7)]
	case 4:
		return r.Range(2050, 9000)
	}
	if *big >= 2 {
		return r.Range(9, 128)
	}
	*big++
	return r.Range(9001, 65535)
}

var outKinds = []string{"raw"}

func genProducers(r *simrt.RNG, sc *Scenario, maxProd, maxMsgs int) {
	np := 1 + r.Intn(maxProd)
	if r.Chance(0.1) {
		np = 1
	}
	xid := uint32(0x5000)
	big := 0
	for p := 0; p < np; p++ {
		var pr Producer
		n := r.Intn(maxMsgs + 1)
		if r.Chance(0.5) {
			n = r.Intn(maxMsgs/5 + 2)
		}
		pr.ThinkMax = []int{0, 0, 1, 4, 20}[r.Intn(5)]
		if n > 0 && r.Chance(0.15) {
			k := 1 + r.Intn(2)
			for j := 0; j < k; j++ {
				ms := 0
				if r.Chance(0.5) {
					ms = []int{1, 50, 1000, 5000, 10000, 30000, 60000}[r.Intn(7)]
				}
				pr.Pauses = append(pr.Pauses, [2]int{r.Intn(n), ms})
			}
		}
		for i := 0; i < n; i++ {
			kind := outKinds[r.Intn(len(outKinds))]
			if r.Chance(0.1) {
				kind = "buffer"
			}
			m := OutMsg{Kind: kind, Size: genOutSize(r, &big), Xid: xid, Seed: r.Uint64()}
			xid++
			pr.Msgs = append(pr.Msgs, m)
			// occasional resubmission of the same object (a cached keep-alive)
			if (kind == "buffer" || kind == "raw") && r.Chance(0.08) && i+1 < n {
				k := 1 + r.Intn(2)
				for j := 0; j < k && i+1 < n; j++ {
					pr.Msgs = append(pr.Msgs, OutMsg{Kind: "same"})
					i++
				}
			}
		}
		sc.Producers = append(sc.Producers, pr)
	}
	if r.Chance(0.35) {
		tot := 0
		for _, p := range sc.Producers {
			tot += len(p.Msgs)
		}
		k := 1 + r.Intn(6)
		sc.WriteStalls = make([]int, tot+1)
		for i := 0; i < k; i++ {
			sc.WriteStalls[r.Intn(tot+1)] = []int{10, 1000, 100000, 5000000}[r.Intn(4)]
		}
	}
}

// genMarathon: a long history - more messages than a 16-bit counter can count - of minimal
// messages from 1-3 producers, with the peer stalling briefly a few times shortly before and
// after message 65536 so that a backlog exists when sequence numbers of any width up to 16 bits
// wrap.
func genMarathon(r *simrt.RNG, sc *Scenario) {
	sc.Class = "marathon"
	np := 1 + r.Intn(3)
	total := 66000 + r.Intn(4000)
	xid := uint32(0x5000)
	for p := 0; p < np; p++ {
		var pr Producer
		n := total / np
		for i := 0; i < n; i++ {
			pr.Msgs = append(pr.Msgs, OutMsg{Kind: "raw", Size: 8, Xid: xid, Seed: uint64(xid)})
			xid++
		}
		sc.Producers = append(sc.Producers, pr)
	}
	sc.WriteStalls = make([]int, total+1)
	for i := 0; i < 6; i++ {
		sc.WriteStalls[65536-200+r.Intn(400)] = []int{100, 10000, 1000000}[r.Intn(3)]
	}
	for i := 0; i < 4; i++ {
		sc.WriteStalls[r.Intn(total)] = []int{100, 10000}[r.Intn(2)]
	}
}

// genInboundBacklog adds well-formed inbound frames, delivered in large reads, and a consumer
// that stops or stalls: more frames than the stream has receive buffers stay unconsumed.
func genInboundBacklog(r *simrt.RNG, sc *Scenario) {
	n := r.Range(40, 160)
	big := 2 // no very large frames here
	for i := 0; i < n; i++ {
		f := genSimpleFrame(r, uint32(0x100+i), &big)
		if f.Size > 256 {
			f = Frame{Kind: "echo_req", Size: 8 + r.Intn(60), Xid: uint32(0x100 + i), Seed: r.Uint64()}
		}
		if _, err := f.Build(); err != nil {
			panic("harness: " + err.Error())
		}
		sc.Frames = append(sc.Frames, f)
	}
	sc.Chunks = nil
	switch r.Intn(3) {
	case 0:
		sc.Consumer.StopAfter = 1 + r.Intn(5)
	case 1:
		sc.Consumer.Stalls = append(sc.Consumer.Stalls, [2]int{r.Intn(4), r.Range(2000, 6000)})
	case 2:
		sc.Consumer.Sleeps = append(sc.Consumer.Sleeps, [2]int{r.Intn(4), []int{500, 9000, 30000}[r.Intn(3)]})
	}
}

// genInboundMarathon: a long inbound history - more frames than a 14-, 15- or 16-bit counter can
// count - of minimal frames in large reads, consumed promptly.
func genInboundMarathon(r *simrt.RNG, sc *Scenario) {
	sc.Class = "marathon"
	n := []int{17000, 33500, 66500}[r.Pick(50, 30, 20)] + r.Intn(800)
	for i := 0; i < n; i++ {
		kind := []string{"echo_req", "echo_rep", "barrier_req", "barrier_rep"}[r.Intn(4)]
		sc.Frames = append(sc.Frames, Frame{Kind: kind, Size: 8, Xid: uint32(0x100 + i), Seed: uint64(i)})
	}
	for i := range sc.Frames {
		if _, err := sc.Frames[i].Build(); err != nil {
			panic("harness: " + err.Error())
		}
	}
}

func genC11(seed uint64) *Scenario {
	r := simrt.NewRNG(seed)
	sc := &Scenario{Property: "C11", RunSeed: seed, Class: "fault-free"}
	if r.Chance(1.0 / 800) {
		genMarathon(r, sc)
		if r.Chance(0.6) {
			sc.GoStall = &GoStall{ArrivalPerMille: []int{300, 600}[r.Intn(2)], MaxUS: []int{1000, 100000, 2000000}[r.Intn(3)]}
		}
		sc.Strategy = genStrategy(r, 800000)
		return sc
	}
	genProducers(r, sc, 16, 100)
	if len(sc.WriteStalls) > 0 {
		sc.Class = "faulty"
	}

	// a slow peer that lets one write run into the 10 s deadline, with or without part of the
	// data accepted: the library ends the process by design (log.Fatalf); what reached the
	// wire until then must still be whole frames in order, except for the cut-off tail
	if r.Chance(0.06) {
		tot := 0
		for _, p := range sc.Producers {
			tot += len(p.Msgs)
		}
		if tot > 0 {
			if sc.WriteStalls == nil {
				sc.WriteStalls = make([]int, tot+1)
			}
			sc.WriteStalls[r.Intn(tot)] = 20_000_000
			if r.Chance(0.7) {
				sc.PartialWrite = 1 + r.Intn(70000)
			}
			sc.Class = "faulty"
		}
	}
	// some inbound traffic in a third of the runs (full duplex), never a failure: C11 has no fault sequences
	// ... and in some of those the application consumes slowly or stops consuming (every receive
	// buffer ends up held): that must not keep a submitted message from being written
	if r.Chance(0.08) {
		genInboundBacklog(r, sc)
	} else if r.Chance(0.3) {
		genInbound(r, sc, false, genSimpleFrame)
		if len(sc.Frames) > 60 {
			sc.Frames = sc.Frames[:60]
			sc.Chunks = nil
			sc.Trailer = 0
		}
	}
	if r.Chance(0.15) {
		sc.StepCost = []int{1, 100, 10000}[r.Intn(3)]
	}
	// in a few runs the application requests a shutdown while producers are still submitting:
	// completeness is not judged then (the library discards by design), but what does reach the
	// wire must still be whole frames, each once, in every producer's order
	if r.Chance(0.05) {
		tot := 0
		for _, p := range sc.Producers {
			tot += len(p.Msgs)
		}
		sc.ShutdownAfter = 1 + r.Intn(10+6*tot)
		sc.Class = "faulty"
	}
	genGoStall(r, sc, 0.12)
	sc.Strategy = genStrategy(r, horizonOf(sc))
	return sc
}
