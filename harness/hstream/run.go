package main

import (
	"encoding/binary"
	"encoding/hex"
	"fmt"
	"io"
	"runtime"
	"strings"
	"time"

	"github.com/contiv/libOpenflow/cmd/hlib"
	"github.com/contiv/libOpenflow/simrt"
	"github.com/contiv/libOpenflow/util"
	log "github.com/sirupsen/logrus"
	stdlog "log"
)

type outcome struct {
	w       *world
	res     simrt.Result
	viol    []hlib.Violation
	trace   []simrt.Decision
	trouble string
}

func init() {
	log.SetOutput(io.Discard)
	stdlog.SetOutput(io.Discard) // some decoders report through the standard logger
	log.SetLevel(log.PanicLevel)
	log.StandardLogger().ExitFunc = func(code int) {
		if s := simrt.Cur(); s != nil {
			s.Exits = append(s.Exits, fmt.Sprintf("exit(%d) at step %d", code, s.Steps))
			if t := s.Running(); t != nil {
				t.ExitKind = "exitfunc"
			}
			runtime.Goexit()
		}
	}
}

func newWorld(sc *Scenario) (*world, error) {
	w := &world{sc: sc, byXid: map[uint32]*frameState{}, byPtr: map[uintptr]*frameState{}, failStep: -1,
		outByXid: map[uint32]*outState{}, probes: hlib.Counter{}, faults: hlib.Counter{}, maxima: hlib.MaxCounter{},
		states: hlib.NewKMV(4096), trans: hlib.NewKMV(4096), shutdownReqStep: -1}
	var data []byte
	for i := range sc.Frames {
		f := &sc.Frames[i]
		b, err := f.Build()
		if err != nil {
			return nil, err
		}
		fs := &frameState{f: f, data: b, start: len(data), end: len(data) + len(b), damaged: len(f.Faults) > 0}
		if len(b) >= 8 {
			xid := binary.BigEndian.Uint32(b[4:8])
			if w.byXid[xid] != nil {
				return nil, fmt.Errorf("duplicate xid %#x in scenario", xid)
			}
			w.byXid[xid] = fs
		}
		w.frames = append(w.frames, fs)
		data = append(data, b...)
	}
	if sc.Trailer > 0 {
		// an incomplete trailing frame: header announces more bytes than will ever arrive
		r := simrt.NewRNG(sc.RunSeed ^ 0x7ea1)
		full := sc.Trailer + 1 + r.Intn(64)
		if full < 8 {
			full = 8
		}
		b := r.Bytes(full)
		putHeader(b, 2, 0xfffffff0)
		f := &Frame{Kind: "trailer", Size: full, Xid: 0xfffffff0}
		fs := &frameState{f: f, data: b, start: len(data), end: len(data) + full}
		w.byXid[0xfffffff0] = fs
		w.frames = append(w.frames, fs)
		data = append(data, b[:sc.Trailer]...)
	}
	if sc.Tail != "" {
		tb, err := hex.DecodeString(sc.Tail)
		if err != nil {
			return nil, err
		}
		w.tailStart = len(data)
		data = append(data, tb...)
		w.faults.Add("desync_tail", 1)
	}
	c := &simConn{w: w, data: data, failAt: -1, emptyAt: map[int]bool{}}
	for _, e := range sc.EmptyReads {
		c.emptyAt[e] = true
	}
	if sc.Failure != nil {
		c.failAt = sc.Failure.AtByte
		if c.failAt > len(data) {
			c.failAt = len(data)
		}
		if c.failAt < 0 {
			c.failAt = 0
		}
		c.failKind = sc.Failure.Kind
	}
	w.conn = c
	for pi := range sc.Producers {
		p := &sc.Producers[pi]
		for i := range p.Msgs {
			m := &p.Msgs[i]
			o := &outState{prod: pi, seq: i, m: m}
			if m.Kind != "same" {
				exp, err := expectedOut(m)
				if err != nil {
					return nil, err
				}
				o.expected = exp
				if len(exp) < 8 {
					return nil, fmt.Errorf("outbound message shorter than a header")
				}
				xid := binary.BigEndian.Uint32(exp[4:8])
				if w.outByXid[xid] != nil {
					return nil, fmt.Errorf("duplicate outbound xid %#x", xid)
				}
				w.outByXid[xid] = o
			}
			w.outs = append(w.outs, o)
		}
	}
	w.prodNext = make([]int, len(sc.Producers))
	for i := range sc.Frames {
		for _, op := range sc.Frames[i].Faults {
			w.faults.Add("damage_"+op.Op+"_stream_leg", 1)
		}
	}
	for i := range sc.Direct {
		for _, op := range sc.Direct[i].Faults {
			w.faults.Add("damage_"+op.Op+"_direct_leg", 1)
		}
	}
	return w, nil
}

func (w *world) main() {
	sc := w.sc
	c := w.conn
	if len(sc.Arrivals) == 0 {
		c.avail = len(c.data)
	} else {
		var t time.Duration
		for _, a := range sc.Arrivals {
			a := a
			t += time.Duration(a.DelayUS) * time.Microsecond
			if t == 0 {
				if a.Upto > c.avail {
					c.avail = a.Upto
				}
				continue
			}
			w.sim.At(t, func() {
				if a.Upto > c.avail {
					c.avail = a.Upto
					if c.avail > len(c.data) {
						c.avail = len(c.data)
					}
				}
			})
		}
		// whatever the plan left out arrives with the last burst
		w.sim.At(t, func() { c.avail = len(c.data) })
		if c.avail > len(c.data) {
			c.avail = len(c.data)
		}
	}
	w.stream = util.NewMessageStream(c, wrapParser{w})
	w.sim.Spawn("consumer", w.consumer)
	w.sim.Spawn("errwatch", w.errorWatcher)
	for pi := range sc.Producers {
		pi := pi
		w.sim.Spawn("producer", func() { w.producer(pi) })
	}
	if sc.ShutdownAfter > 0 {
		w.sim.Spawn("app", w.shutdownApp)
	}
	if len(sc.Direct) > 0 && hookDirect != nil {
		w.sim.Spawn("direct", func() { hookDirect(w) })
	}
}

var hookDirect func(w *world)

func stepBudget(sc *Scenario) int {
	n := 5000
	per := 3000 + 2*(sc.Consumer.ThinkMax+sc.ParserDelay)
	n += per * (len(sc.Frames) + len(sc.Direct))
	for _, s := range sc.Consumer.Stalls {
		n += s[1]
	}
	for _, p := range sc.Producers {
		n += (3000 + p.ThinkMax) * len(p.Msgs)
	}
	n += sc.ShutdownAfter
	// every Read call is a step of the reader (the first thorough run raised a false liveness
	// alarm on two 50 KiB frames arriving in 12 548 reads of 1-16 bytes: 11 000 steps allowed)
	// (and an implementation that hands every chunk it reads to another goroutine spends a
	// handful of steps per read where the pinned one spends one: agent-written refactoring
	// ABS-10 raised the same false alarm with 6 steps per read)
	n += 24*len(sc.Chunks) + 24*len(sc.EmptyReads)
	tot := 0
	for i := range sc.Frames {
		tot += sc.Frames[i].Size
	}
	n += 24 * (tot/256 + 1)
	return n
}

func runScenario(sc *Scenario, replay []simrt.Decision, record bool) *outcome {
	w, err := newWorld(sc)
	if err != nil {
		return &outcome{trouble: "scenario: " + err.Error()}
	}
	cfg := simrt.Config{
		MaxSteps: stepBudget(sc),
		Strategy: sc.Strategy.Build(),
		Replay:   replay,
		Record:   record,
		Classify: classifier,
		OnStep:   w.onStep,
		HB:       true,
		SharedPkg: func(pkg string) bool {
			if pkg == "util" {
				return true
			}
			return sc.SharedCodec
		},
	}
	if gs := sc.GoStall; gs != nil {
		cfg.Stall = func(t *simrt.Task, n int, arrival bool) time.Duration {
			if t.Site < 0 {
				return 0 // tasks of the harness (producers, application, peer)
			}
			h := simrt.Mix(sc.RunSeed, 0x57a11, uint64(t.ID), uint64(n))
			pm := gs.PerMille
			if arrival {
				pm = gs.ArrivalPerMille
			}
			if int(h%1000) >= pm {
				return 0
			}
			us := []int{10, 1000, 100000, 2000000}[(h>>20)%4]
			if gs.MaxUS > 0 && us > gs.MaxUS {
				us = gs.MaxUS
			}
			return time.Duration(us) * time.Microsecond
		}
	}
	if sc.StepCost > 0 {
		cr := simrt.NewRNG(sc.RunSeed ^ 0xc057)
		mx := sc.StepCost
		cfg.StepCost = func() time.Duration {
			if cr.Intn(4) != 0 {
				return 0
			}
			return time.Duration(cr.Intn(mx+1)) * time.Microsecond
		}
	}
	sim := simrt.New(cfg)
	w.sim = sim
	simrt.EnableShared(true)
	gc0 := numGC()
	res := sim.Run(w.main)
	if numGC() != gc0 && len(sim.Races) > 0 {
		// a collection ran during the run (memory limit): freed addresses may have been reused,
		// the address-keyed race detector cannot be trusted for this run
		w.probes.Add("race_reports_dropped_gc_during_run", int64(len(sim.Races)))
		sim.Races = nil
	}
	o := &outcome{w: w, res: res, trace: sim.Trace}
	if sim.Fail != "" {
		o.trouble = sim.Fail
		return o
	}
	w.finish(res)
	o.viol = w.viol
	return o
}

var classifier func(string) string

func (w *world) finish(res simrt.Result) {
	sc := w.sc
	sim := w.sim
	quiescent := res.EndKind == "quiescent"
	if sim.PeriodicIdle {
		w.probes.Add("ended_in_periodic_idling", 1)
	}
	if res.EndKind == "stepcap" {
		var parked []string
		for _, t := range sim.Tasks {
			if !t.Exited() {
				parked = append(parked, fmt.Sprintf("%s#%d@%s:%s", t.Class, t.ID, t.PendKind(), simrt.SiteName(t.PendSite())))
			}
		}
		if len(parked) > 12 {
			parked = append(parked[:12], "...")
		}
		w.violate("liveness", "no-quiescence-within-step-cap", "", fmt.Sprintf("run did not become quiescent within %d steps; tasks: %s", res.Steps, strings.Join(parked, " ")))
	}
	// crashed tasks
	for _, p := range sim.Panics {
		switch {
		case strings.HasPrefix(p.Val, "harness:"):
			w.viol = append(w.viol, hlib.Violation{Property: sc.Property, Oracle: "harness", Class: "trouble", Detail: p.Val + "\n" + p.Stack})
		case p.Class == "producer" && strings.Contains(p.Val, "send on closed channel"):
			w.probes.Add("producer_hit_closed_outbound", 1)
		case p.Class == "consumer" || p.Class == "errwatch" || p.Class == "app" || p.Class == "producer" || p.Class == "direct" || p.Class == "main":
			w.viol = append(w.viol, hlib.Violation{Property: sc.Property, Oracle: "harness", Class: "trouble", Detail: "harness task panicked: " + p.Val + "\n" + p.Stack})
		default:
			if hookPanic != nil && hookPanic(w, p) {
				continue
			}
			w.violate("crash", "stream-task-panic", p.Top, fmt.Sprintf("%s task crashed (the process would have died): %s", p.Class, p.Val))
		}
	}
	if len(sim.Exits) > 0 {
		w.probes.Add("process_exit_via_log_fatal", int64(len(sim.Exits)))
		if sc.Failure == nil && sc.ShutdownAfter == 0 && w.faults["write_deadline_exceeded"] == 0 {
			w.violate("crash", "process-exit", "", "stream terminated the process although the connection never failed: "+sim.Exits[0])
		}
	}
	for _, r := range sim.Races {
		a, b := siteInfo(r.SiteA), siteInfo(r.SiteB)
		if carriesFrames(a.Type) && carriesFrames(b.Type) {
			fa, fb := a.Func, b.Func
			if fb < fa {
				fa, fb = fb, fa
			}
			w.violate("race", "data-race-on-frame-buffer", fa+" / "+fb, fmt.Sprintf("unsynchronised accesses to the same pool buffer: %s in %s (task %d) and %s in %s (task %d) are not ordered by happens-before (%s)", a.Type, a.Func, r.TaskA, b.Type, b.Func, r.TaskB, r.Kind))
		} else if k := a.Kind; (k == "r" || k == "w" || k == "captured" || k == "atomic") && (b.Kind == "r" || b.Kind == "w" || b.Kind == "captured" || b.Kind == "atomic") {
			// package-level (or closure-shared) library state touched by two stream goroutines
			// without synchronisation: e.g. two parser goroutines inside the same decoder
			fa, fb := a.Func, b.Func
			if fb < fa {
				fa, fb = fb, fa
			}
			w.violate("race", "data-race-on-library-state", fa+" / "+fb, fmt.Sprintf("unsynchronised accesses to the same library variable by two goroutines of the stream: %q in %s (task %d) and %q in %s (task %d) are not ordered by happens-before (%s)", a.Text, a.Func, r.TaskA, b.Text, b.Func, r.TaskB, r.Kind))
		} else {
			w.probes.Add("race_on_other_object", 1)
		}
	}
	// a trailing partial frame is only judged when nothing cut the writer short (connection
	// failure, local shutdown and process exit are not part of C11's quantifier)
	w.checkWire(quiescent && sc.Failure == nil && sc.ShutdownAfter == 0 && len(sim.Exits) == 0)

	// ---- inbound oracles
	remoteFailure := w.conn.failed
	localShutdown := w.shutdownReqStep >= 0
	nErr := len(w.errorsSeen)
	for _, e := range w.errorsSeen {
		if e == "<nil>" {
			w.violate("error-publication", "nil-error-published", "", "a nil error was published on the Error channel")
		}
	}
	if quiescent {
		switch {
		case remoteFailure && !localShutdown:
			if nErr != 1 {
				w.violate("error-publication", fmt.Sprintf("failure-published-%d-times", nErr), "", fmt.Sprintf("connection failed with %s at byte %d but %d errors were published", w.conn.failKind, w.conn.failAt, nErr))
			}
		case !remoteFailure:
			if nErr != 0 {
				w.violate("error-publication", "error-without-failure", "", fmt.Sprintf("%d errors published although the connection never failed: %v", nErr, w.errorsSeen))
			}
		default:
			if nErr > 1 {
				w.violate("error-publication", fmt.Sprintf("failure-published-%d-times", nErr), "", "more than one error published")
			}
		}
	} else if nErr > 1 {
		w.violate("error-publication", fmt.Sprintf("failure-published-%d-times", nErr), "", "more than one error published")
	}

	// completeness
	eligible := quiescent && !w.consumerStopped && sc.ShutdownAfter == 0 && sc.Consumer.StopAfter == 0 && !sc.Consumer.StopAfterError
	if totalityProp(sc.Property) {
		// a parser goroutine that died on a damaged frame takes its frame with it: that is
		// reported by the totality oracles, not a second time as a lost frame
		for _, t := range sim.Tasks {
			if t.Class == "parser" && (t.ExitKind == "panic" || t.ExitKind == "budget") {
				eligible = false
			}
		}
	}
	nilParsed := 0
	if eligible {
		lost, lostInFlight := 0, 0
		var first *frameState
		for _, fs := range w.frames {
			if fs.end > w.conn.pos {
				continue
			}
			if fs.parsed && (fs.msg == nil || isNilMsg(fs.msg)) {
				nilParsed++
				continue
			}
			if fs.delivered == 0 && !fs.budgetKilled() {
				lost++
				if first == nil {
					first = fs
				}
				if remoteFailure && w.inFlightAtFail[fs.f.Xid] {
					lostInFlight++
				}
			}
		}
		if lost > 0 {
			what := "never handed to a parser"
			if first.handed > 0 {
				what = fmt.Sprintf("parsed at step %d but never delivered", first.handStep)
			}
			if remoteFailure && lost == lostInFlight {
				w.violate("delivery", "lost-in-flight-at-remote-failure", "", fmt.Sprintf("%d complete frame(s) that were still queued when the connection failed (%s at byte %d, step %d) were never delivered; first: xid=%#x complete at byte %d, %s", lost, w.conn.failKind, w.conn.failAt, w.failStep, first.f.Xid, first.end, what))
			} else {
				w.violate("delivery", "frame-lost", "", fmt.Sprintf("%d complete frame(s) never delivered although the consumer kept reading; first: xid=%#x (%s, %d bytes, complete at byte %d of %d read), %s", lost, first.f.Xid, first.f.Kind, len(first.data), first.end, w.conn.pos, what))
			}
		}
		if w.nilDelivered != nilParsed && lost == 0 && sc.Tail == "" {
			w.violate("delivery", "nil-delivery-mismatch", "", fmt.Sprintf("%d nil messages delivered, %d frames parsed to nil", w.nilDelivered, nilParsed))
		}
	}
	// held messages unchanged
	for _, fs := range w.frames {
		if fs.msg != nil && !isNilMsg(fs.msg) && fs.hash0 != 0 {
			if h := hlib.DeepHash(fs.msg); h != fs.hash0 {
				w.violate("held-message", "message-changed-after-parse", fmt.Sprintf("%T", fs.msg), fmt.Sprintf("message of frame xid=%#x (%s) changed between the moment it was parsed (step %d) and the end of the run", fs.f.Xid, fs.f.Kind, fs.handStep))
			}
		}
	}
	// ---- outbound completeness
	if quiescent && sc.Failure == nil && sc.ShutdownAfter == 0 && len(sim.Exits) == 0 {
		for _, o := range w.outs {
			if o.m.Kind == "same" {
				continue
			}
			want := w.totalSubmissions(o)
			if o.seen != want {
				w.violate("wire", "message-not-written", "", fmt.Sprintf("message xid=%#x (producer %d #%d, %d bytes) submitted %d time(s) but found %d time(s) on the wire", o.m.Xid, o.prod, o.seq, len(o.expected), want, o.seen))
				break
			}
		}
	}
	if hookEnd != nil {
		hookEnd(w)
	}
}

var hookPanic func(w *world, p simrt.PanicInfo) bool

func (fs *frameState) budgetKilled() bool { return false }

// nontrivial implements the per-property rule of DESIGN.md 6.
func (w *world) nontrivial() bool {
	sc := w.sc
	switch sc.Property {
	case "C11":
		return len(sc.Producers) >= 2 && w.prodOverlap
	case "C07", "C08":
		return w.decoderPastHeader
	}
	return len(sc.Frames) >= 2 && (w.splitFrame || w.readerSwitchInFull)
}

func siteInfo(id int32) simrt.SiteInfo {
	if id >= 0 && int(id) < len(simrt.Sites) {
		return simrt.Sites[id]
	}
	return simrt.SiteInfo{Name: "harness", Func: "harness"}
}

// carriesFrames: objects whose contents are frame bytes on their way to the consumer.
func carriesFrames(typ string) bool {
	return strings.HasPrefix(typ, "bytes.Buffer.") || strings.HasPrefix(typ, "util.Buffer.")
}

func numGC() uint32 {
	var ms runtime.MemStats
	runtime.ReadMemStats(&ms)
	return ms.NumGC
}
