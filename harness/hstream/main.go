// hstream is the stream harness: it runs the real (instrumented) util.MessageStream under
// the gate runtime against a scripted connection, stub application tasks and the oracles of
// DESIGN.md 4.1-4.5. One simulation at a time per process.
package main

import (
	"encoding/json"
	"flag"
	"fmt"
	"os"
	"runtime"
	"runtime/debug"
	"strconv"
	"strings"
	"time"

	"github.com/contiv/libOpenflow/cmd/hlib"
	"github.com/contiv/libOpenflow/simrt"
)

// ReplayFile is the on-disk form of one reproducible execution.
type ReplayFile struct {
	Property  string         `json:"property"`
	RunSeed   uint64         `json:"run_seed"`
	Tree      string         `json:"tree,omitempty"`
	Scenario  *Scenario      `json:"scenario"`
	Decisions []int32        `json:"decisions"`
	Violation hlib.Violation `json:"violation"`
	Hash      uint64         `json:"hash"`
	Steps     int            `json:"steps"`
	Minimised bool           `json:"minimised"`
}

func flatten(tr []simrt.Decision) []int32 {
	out := make([]int32, 0, 2*len(tr))
	for _, d := range tr {
		out = append(out, d.T, int32(d.A))
	}
	return out
}

func unflatten(f []int32) []simrt.Decision {
	out := make([]simrt.Decision, 0, len(f)/2)
	for i := 0; i+1 < len(f); i += 2 {
		out = append(out, simrt.Decision{T: f[i], A: int16(f[i+1])})
	}
	return out
}

var generators = map[string]func(seed uint64) *Scenario{
	"C10": genC10,
	"C11": genC11,
}

func genFor(prop string, base uint64, i int) *Scenario {
	seed := simrt.Mix(base, simrt.HashString(prop), uint64(i))
	g := generators[prop]
	if g == nil {
		fmt.Fprintf(os.Stderr, "hstream: no generator for property %s\n", prop)
		os.Exit(2)
	}
	return g(seed)
}

func main() {
	mode := flag.String("mode", "run", "run | replay | minimize | gen")
	prop := flag.String("property", "C10", "property id")
	seed := flag.Uint64("seed", 1, "base seed (VERIF_SEED)")
	from := flag.Int("from", 0, "first run index")
	count := flag.Int("count", 100, "number of runs")
	stride := flag.Int("stride", 1, "run index stride")
	out := flag.String("out", "", "output file (summary / replay)")
	file := flag.String("file", "", "replay file (replay/minimize)")
	limit := flag.Float64("time-limit", 0, "stop after this many seconds (0 = none)")
	det := flag.Bool("det", false, "record per-run digests (determinism self-test)")
	tier := flag.String("tier", "quick", "quick | thorough")
	verbose := flag.Bool("v", false, "verbose")
	flag.Parse()
	tierName = *tier

	debug.SetGCPercent(-1)
	debug.SetMaxStack(256 << 20)
	simrt.StartWatchdog(60 * time.Second)
	exitWhenOrphaned()
	classifier = classifyBySite()

	switch *mode {
	case "gen":
		sc := genFor(*prop, *seed, *from)
		b, _ := json.MarshalIndent(sc, "", " ")
		fmt.Println(string(b))
	case "run":
		sum := worker(*prop, *seed, *from, *count, *stride, *limit, *det, *verbose)
		sum.Seal()
		b, err := json.Marshal(sum)
		if err != nil {
			fmt.Fprintln(os.Stderr, "hstream:", err)
			os.Exit(2)
		}
		if *out != "" {
			if err := os.WriteFile(*out, b, 0o644); err != nil {
				fmt.Fprintln(os.Stderr, "hstream:", err)
				os.Exit(2)
			}
		} else {
			os.Stdout.Write(b)
		}
		if sum.Trouble != "" {
			fmt.Fprintln(os.Stderr, "hstream: trouble:", sum.Trouble)
			os.Exit(2)
		}
	case "replay":
		os.Exit(replayMode(*file, *verbose))
	case "minimize":
		os.Exit(minimizeMode(*file, *out, *verbose))
	default:
		fmt.Fprintln(os.Stderr, "unknown mode")
		os.Exit(2)
	}
}

var tierName = "quick"

func worker(prop string, base uint64, from, count, stride int, limit float64, det, verbose bool) *hlib.Summary {
	sum := hlib.NewSummary(prop)
	sum.From = from
	if det {
		sum.DetHashes = map[string]uint64{}
	}
	start := time.Now()
	seenClass := map[string]int{}
	var fallback []byte
	fallbackSteps := 0
	for k := 0; k < count; k++ {
		i := from + k*stride
		if limit > 0 && time.Since(start).Seconds() > limit {
			break
		}
		sc := genFor(prop, base, i)
		o := runScenario(sc, nil, true)
		if o.trouble != "" {
			sum.Trouble = fmt.Sprintf("run %d (seed %d): %s", i, sc.RunSeed, o.trouble)
			break
		}
		w := o.w
		sum.Runs++
		sum.Steps += int64(o.res.Steps)
		sum.SimTimeNS += w.sim.NowNS()
		sum.EndKinds.Add(o.res.EndKind, 1)
		sum.Strategies.Add(sc.Strategy.Kind, 1)
		sum.Classes.Add(sc.Class, 1)
		sum.Faults.Merge(w.faults)
		sum.Probes.Merge(w.probes)
		sum.Probes.Add("select_with_several_ready_arms", int64(w.sim.SelectMulti))
		sum.Probes.Add("clock_jumps", int64(w.sim.ClockJumps))
		sum.Faults.Add("goroutine_descheduled_for_simulated_time", int64(w.sim.GoroutineStalls))
		sum.Faults.Add("goroutine_descheduled_in_front_of_unbuffered_channel_operation", int64(w.sim.ArrivalStalls))
		sum.Probes.Add("context_switches", int64(w.sim.CtxSwitches))
		sum.Maxima.Merge(w.maxima)
		sum.Maxima.Obs("max_steps_per_run", float64(o.res.Steps))
		w.states.Seal()
		w.trans.Seal()
		sum.States.Merge(w.states)
		sum.Transitions.Merge(w.trans)
		sum.Traces.Add(o.res.Hash)
		if w.nontrivial() {
			sum.Nontrivial++
			sum.NontrivTraces.Add(o.res.Hash)
		}
		if det {
			sum.DetHashes[strconv.Itoa(i)] = o.res.Hash ^ uint64(o.res.Steps)<<48
		}
		if len(sum.Samples) < 3 && w.nontrivial() && len(sc.Frames)+len(sc.Producers) <= 12 && o.res.Steps < 400 {
			rf := ReplayFile{Property: prop, RunSeed: sc.RunSeed, Scenario: sc, Decisions: flatten(o.trace), Hash: o.res.Hash, Steps: o.res.Steps}
			materialise(sc)
			b, _ := json.Marshal(rf)
			sum.Samples = append(sum.Samples, b)
		} else if w.nontrivial() && o.res.Steps < 3000 && (fallback == nil || o.res.Steps < fallbackSteps) {
			rf := ReplayFile{Property: prop, RunSeed: sc.RunSeed, Scenario: sc, Decisions: flatten(o.trace), Hash: o.res.Hash, Steps: o.res.Steps}
			materialise(sc)
			fallback, _ = json.Marshal(rf)
			fallbackSteps = o.res.Steps
		}
		for _, v := range o.viol {
			v.RunIndex = i
			if v.Oracle == "harness" {
				sum.Trouble = v.Detail
				break
			}
			sum.ViolCounts.Add(v.Key(), 1)
			seenClass[v.Key()]++
			if seenClass[v.Key()] <= 3 && len(sum.Violations) < 24 {
				materialise(sc)
				scb, _ := json.Marshal(sc)
				v.Scenario = scb
				v.Trace = flatten(o.trace)
				v.Hash = o.res.Hash
				sum.Violations = append(sum.Violations, v)
				if verbose {
					fmt.Fprintf(os.Stderr, "run %d seed %d: %s/%s %s: %s\n", i, sc.RunSeed, v.Oracle, v.Class, v.Site, v.Detail)
				}
			}
		}
		if sum.Trouble != "" {
			break
		}
		if k%16 == 15 || heapBig() {
			runtime.GC()
		}
	}
	if len(sum.Samples) == 0 && fallback != nil {
		sum.Samples = append(sum.Samples, fallback)
	}
	sum.WallS = time.Since(start).Seconds()
	// which decoder functions did the runs of this worker enter (zero entries are kept: the
	// driver lists decoders no run reached)
	sum.SiteHits = map[string]uint64{}
	for i, s := range simrt.Sites {
		if s.Kind != "func" || (s.Pkg != "openflow13" && s.Pkg != "protocol" && s.Pkg != "common" && s.Pkg != "util") {
			continue
		}
		if strings.Contains(s.Func, "UnmarshalBinary") || strings.HasPrefix(s.Func, "Decode") || strings.HasPrefix(s.Func, "decode") ||
			s.Func == "Parse" || strings.HasSuffix(s.Func, ").Write") || s.Func == "DHCPParseOptions" {
			sum.SiteHits[s.Pkg+"."+s.Func] += simrt.SiteHits[i]
		}
	}
	if hookSummary != nil {
		hookSummary(sum)
	}
	return sum
}

var hookSummary func(*hlib.Summary)

// materialise writes explicit bytes into the scenario so that a replay does not depend on
// the generators.
func materialise(sc *Scenario) {
	for i := range sc.Frames {
		f := &sc.Frames[i]
		if f.Hex == "" && f.bytes != nil && needsHex(f.Kind) {
			f.Hex = fmt.Sprintf("%x", f.bytes)
		}
	}
}

func needsHex(kind string) bool {
	for _, k := range simpleKinds {
		if k == kind {
			return false
		}
	}
	return true
}

func loadReplay(path string) (*ReplayFile, error) {
	b, err := os.ReadFile(path)
	if err != nil {
		return nil, err
	}
	var rf ReplayFile
	if err := json.Unmarshal(b, &rf); err != nil {
		return nil, err
	}
	if rf.Scenario == nil {
		return nil, fmt.Errorf("replay file has no scenario")
	}
	return &rf, nil
}

func sameClass(a, b *hlib.Violation) bool {
	return a.Oracle == b.Oracle && a.Class == b.Class && a.Site == b.Site
}

// replayMode re-executes a replay file; exit 1 = the recorded violation reproduced,
// 0 = it did not (e.g. the tree was repaired), 2 = trouble.
func replayMode(path string, verbose bool) int {
	rf, err := loadReplay(path)
	if err != nil {
		fmt.Fprintln(os.Stderr, "hstream:", err)
		return 2
	}
	o := runScenario(rf.Scenario, unflatten(rf.Decisions), true)
	if o.trouble != "" {
		fmt.Fprintln(os.Stderr, "hstream: trouble:", o.trouble)
		return 2
	}
	fmt.Printf("replay: steps=%d end=%s hash=%d diverged=%d recorded_hash=%d\n", o.res.Steps, o.res.EndKind, o.res.Hash, o.w.sim.Diverged, rf.Hash)
	for _, v := range o.viol {
		fmt.Printf("replay: found %s/%s %s: %s\n", v.Oracle, v.Class, v.Site, v.Detail)
	}
	for _, v := range o.viol {
		if sameClass(&v, &rf.Violation) {
			exact := o.res.Hash == rf.Hash && o.w.sim.Diverged == 0
			fmt.Printf("REPRODUCED property=%s oracle=%s class=%s exact=%v\n", rf.Property, v.Oracle, v.Class, exact)
			return 1
		}
	}
	fmt.Printf("NOT-REPRODUCED property=%s\n", rf.Property)
	return 0
}

// heapBig reports whether the heap grew past a quarter GiB (the collector is off during runs).
func heapBig() bool {
	var ms runtime.MemStats
	runtime.ReadMemStats(&ms)
	return ms.HeapAlloc > 256<<20
}

// exitWhenOrphaned ends this process when its parent is gone.
func exitWhenOrphaned() {
	ppid := os.Getppid()
	go func() {
		for {
			time.Sleep(2 * time.Second)
			if os.Getppid() != ppid {
				os.Exit(3)
			}
		}
	}()
}
