package main

import (
	"bytes"
	"encoding/binary"
	"errors"
	"fmt"
	"io"
	"net"
	"reflect"
	"strings"
	"time"

	"github.com/contiv/libOpenflow/cmd/hlib"
	"github.com/contiv/libOpenflow/openflow13"
	"github.com/contiv/libOpenflow/simrt"
	"github.com/contiv/libOpenflow/util"
)

type frameState struct {
	f         *Frame
	data      []byte
	start     int
	end       int
	handed    int // times handed to the parser
	handStep  int
	parsed    bool
	msg       util.Message
	msgPtr    uintptr
	perr      error
	hash0     uint64
	enc0      []byte
	delivered int
	delivStep int
	copyIn    []byte
	damaged   bool
}

type outState struct {
	prod      int
	seq       int
	m         *OutMsg
	expected  []byte
	submitted int // completed submissions
	seen      int // occurrences found on the wire
}

type world struct {
	sc     *Scenario
	sim    *simrt.Sim
	conn   *simConn
	stream *util.MessageStream
	frames []*frameState
	byXid  map[uint32]*frameState
	byPtr  map[uintptr]*frameState

	delivered       int
	nilDelivered    int
	errorsSeen      []string
	errStep         int
	failStep        int // step at which the failing Read returned (-1 = not yet)
	inFlightAtFail  map[uint32]bool
	shutdownReqStep int
	consumerStopped bool

	outs     []*outState
	outByXid map[uint32]*outState
	prodNext []int
	wire     []byte
	wirePos  int
	writes   int

	viol   []hlib.Violation
	probes hlib.Counter
	faults hlib.Counter
	maxima hlib.MaxCounter

	states  *hlib.KMV
	trans   *hlib.KMV
	lastAbs uint64

	readerSwitchInFull bool
	splitFrame         bool
	prodOverlap        bool
	activeProducers    int
	decoderPastHeader  bool
	budgets            []budgetRec
	tailStart          int
}

func (w *world) violate(oracle, class, site, detail string) {
	for _, v := range w.viol {
		if v.Oracle == oracle && v.Class == class && v.Site == site {
			return
		}
	}
	if len(w.viol) >= 8 {
		return
	}
	w.viol = append(w.viol, hlib.Violation{Property: w.sc.Property, Oracle: oracle, Class: class, Site: site,
		Detail: fmt.Sprintf("step %d: %s", w.sim.Steps, detail), RunSeed: w.sc.RunSeed})
	w.sim.Event(0xbad, simrt.HashString(oracle+class))
}

// ---------------------------------------------------------------- simulated connection

type simConn struct {
	w         *world
	data      []byte
	avail     int
	pos       int
	readCalls int
	emptyAt   map[int]bool
	failAt    int // -1: no failure
	failKind  string
	failed    bool
	closed    bool
	deadline  time.Time // write deadline
	rdeadline time.Time // read deadline
	inRead    bool
}

type simAddr struct{}

func (simAddr) Network() string { return "sim" }
func (simAddr) String() string  { return "sim:6653" }

type timeoutErr struct{}

func (timeoutErr) Error() string   { return "read tcp sim:6653: i/o timeout" }
func (timeoutErr) Timeout() bool   { return true }
func (timeoutErr) Temporary() bool { return true }

var errClosed = errors.New("read tcp sim:6653: use of closed network connection")

func (c *simConn) limit() int {
	l := c.avail
	if c.failAt >= 0 && c.failAt < l {
		l = c.failAt
	}
	return l
}

func (c *simConn) Read(b []byte) (int, error) {
	w := c.w
	if c.inRead {
		w.violate("conn-usage", "concurrent-read", "", "two goroutines inside conn.Read at once")
	}
	c.inRead = true
	defer func() { c.inRead = false }()
	call := c.readCalls
	c.readCalls++
	if c.emptyAt[call] && !c.closed {
		simrt.Yield()
		w.faults.Add("empty_read", 1)
		w.sim.Event(0x7ead, 0)
		return 0, nil
	}
	rdDue := func() bool { return !c.rdeadline.IsZero() && !simrt.Now().Before(c.rdeadline) }
	simrt.WaitUntil(func() bool {
		return c.closed || c.pos < c.limit() || (c.failAt >= 0 && c.pos >= c.failAt && c.avail >= c.failAt) || rdDue()
	})
	if c.closed {
		w.sim.Event(0x7ead, 0xc105ed)
		return 0, errClosed
	}
	if c.pos >= c.limit() && !(c.failAt >= 0 && c.pos >= c.failAt && c.avail >= c.failAt) && rdDue() {
		// a read deadline set by the code under test expired with nothing to read: the
		// connection itself is healthy (this is not an injected failure)
		w.faults.Add("read_deadline_expired", 1)
		w.sim.Event(0x7ead, 0xdead11)
		return 0, timeoutErr{}
	}
	if c.pos < c.limit() {
		n := c.limit() - c.pos
		if n > len(b) {
			n = len(b)
		}
		if call < len(w.sc.Chunks) && w.sc.Chunks[call] > 0 && w.sc.Chunks[call] < n {
			n = w.sc.Chunks[call]
		}
		copy(b, c.data[c.pos:c.pos+n])
		w.noteRead(c.pos, c.pos+n)
		c.pos += n
		w.sim.Event(0x7ead, uint64(n))
		return n, nil
	}
	// failure due
	if !c.failed {
		c.failed = true
		w.onFailure()
	}
	w.sim.Event(0x7ead, 0xfa11)
	switch c.failKind {
	case "eof":
		return 0, io.EOF
	case "timeout":
		return 0, timeoutErr{}
	}
	return 0, &net.OpError{Op: "read", Net: "tcp", Err: errors.New("connection reset by peer")}
}

func (c *simConn) Write(b []byte) (int, error) {
	w := c.w
	// operations on the connection are visible to the other goroutines of the stream: a
	// scheduling point in front of each (Read parks anyway)
	simrt.Yield()
	call := w.writes
	w.writes++
	if c.closed {
		return 0, errors.New("write tcp sim:6653: use of closed network connection")
	}
	if call < len(w.sc.WriteStalls) && w.sc.WriteStalls[call] > 0 {
		d := time.Duration(w.sc.WriteStalls[call]) * time.Microsecond
		if !c.deadline.IsZero() && simrt.Now().Add(d).After(c.deadline) {
			simrt.Sleep(c.deadline.Sub(simrt.Now()))
			w.faults.Add("write_deadline_exceeded", 1)
			// the peer's window closed after part of the data was accepted: Write reports how
			// many bytes went out together with the timeout (what a TCP conn does)
			n := 0
			if w.sc.PartialWrite > 0 {
				n = w.sc.PartialWrite % len(b)
			}
			if n > 0 {
				w.faults.Add("partial_write_at_deadline", 1)
				w.wire = append(w.wire, b[:n]...)
				w.sim.Event(0x3717e, uint64(n))
				w.checkWire(false)
			}
			return n, timeoutErr{}
		}
		w.faults.Add("write_stall", 1)
		simrt.Sleep(d)
	}
	w.wire = append(w.wire, b...)
	w.sim.Event(0x3717e, uint64(len(b)))
	w.checkWire(false)
	return len(b), nil
}

func (c *simConn) Close() error {
	simrt.Yield()
	if !c.closed {
		c.closed = true
		c.w.sim.Event(0xc105e, 0)
	}
	return nil
}
func (c *simConn) LocalAddr() net.Addr  { return simAddr{} }
func (c *simConn) RemoteAddr() net.Addr { return simAddr{} }
func (c *simConn) SetDeadline(t time.Time) error {
	c.deadline = t
	c.setRead(t)
	return nil
}
func (c *simConn) SetReadDeadline(t time.Time) error  { c.setRead(t); return nil }
func (c *simConn) SetWriteDeadline(t time.Time) error { c.deadline = t; return nil }

// setRead arms the read deadline; an event at that instant lets the discrete-event clock
// jump there when the system is otherwise idle.
func (c *simConn) setRead(t time.Time) {
	c.rdeadline = t
	if !t.IsZero() {
		if d := t.Sub(simrt.Now()); d > 0 {
			c.w.sim.At(d, func() {})
		}
	}
}

// noteRead records which fault kinds actually fired for bytes [a,b) returned by one Read.
func (w *world) noteRead(a, b int) {
	for _, fs := range w.frames {
		if fs.end <= a {
			continue
		}
		if fs.start >= b {
			break
		}
		// the read ends inside this frame?
		if b > fs.start && b < fs.end {
			w.splitFrame = true
			off := b - fs.start
			switch {
			case off < 4:
				w.faults.Add("split_inside_prefix", 1)
				if off == 3 {
					w.faults.Add("split_between_length_bytes", 1)
				}
			case off < 8:
				w.faults.Add("split_inside_header", 1)
			default:
				w.faults.Add("split_inside_body", 1)
			}
		}
	}
	if b-a == 1 {
		w.faults.Add("one_byte_read", 1)
	}
}

func (w *world) onFailure() {
	w.failStep = w.sim.Steps
	w.inFlightAtFail = map[uint32]bool{}
	n := 0
	for _, fs := range w.frames {
		if fs.end <= w.conn.pos && fs.delivered == 0 {
			w.inFlightAtFail[fs.f.Xid] = true
			n++
		}
	}
	k := w.conn.failKind
	at := w.conn.failAt
	boundary := at == len(w.conn.data)
	for _, fs := range w.frames {
		if fs.start == at {
			boundary = true
		}
	}
	if boundary {
		w.faults.Add(k+"_at_frame_boundary", 1)
	} else {
		w.faults.Add(k+"_mid_frame", 1)
	}
	if n > 0 {
		w.probes.Add("failure_with_frames_in_flight", 1)
	}
}

// ---------------------------------------------------------------- wrapping parser

type wrapParser struct{ w *world }

// tailGarbage: in a totality run with a desynchronising tail, whatever the de-framer cuts out
// of the tail is handed to the real parser without being attributed to a sent frame.
func (w *world) tailGarbage(b []byte) (util.Message, error) {
	w.probes.Add("tail_garbage_handed_to_parser", 1)
	fs := &frameState{f: &Frame{Kind: "tail-garbage"}, data: append([]byte(nil), b...)}
	return w.parseUnderBudget(b, fs)
}

func (p wrapParser) Parse(b []byte) (util.Message, error) {
	w := p.w
	if w.sc.Tail != "" && totalityProp(w.sc.Property) {
		known := false
		if len(b) >= 8 {
			if fs := w.byXid[binary.BigEndian.Uint32(b[4:8])]; fs != nil && bytes.Equal(b, fs.data) && fs.handed == 0 {
				known = true
			}
		}
		if !known {
			return w.tailGarbage(b)
		}
	}
	if len(b) < 8 {
		w.violate("parser-boundary", "short-input", "", fmt.Sprintf("parser received %d bytes (not a frame)", len(b)))
		return nil, errors.New("short")
	}
	xid := binary.BigEndian.Uint32(b[4:8])
	fs := w.byXid[xid]
	if fs == nil {
		w.violate("parser-boundary", "unknown-frame", "", fmt.Sprintf("parser received %d bytes that are no sent frame (xid %#x, head % x)", len(b), xid, b[:8]))
		return nil, errors.New("unknown frame")
	}
	if !bytes.Equal(b, fs.data) {
		w.violate("parser-boundary", "frame-bytes-differ", "", fmt.Sprintf("parser input for frame xid=%#x (%s, %d bytes) differs from what was sent (got %d bytes, first difference at %d)", xid, fs.f.Kind, len(fs.data), len(b), firstDiff(b, fs.data)))
	}
	if fs.end > w.conn.pos {
		w.violate("parser-boundary", "incomplete-frame-delivered", "", fmt.Sprintf("frame xid=%#x handed to the parser although only %d of its bytes had been read", xid, w.conn.pos-fs.start))
	}
	fs.handed++
	if fs.handed > 1 {
		w.violate("parser-boundary", "frame-handed-twice", "", fmt.Sprintf("frame xid=%#x handed to the parser %d times", xid, fs.handed))
	}
	fs.handStep = w.sim.Steps
	in := append([]byte(nil), b...)
	if d := w.sc.ParserDelay; d > 0 {
		n := int(simrt.Mix(w.sc.RunSeed, uint64(xid)) % uint64(d+1))
		if n > 0 {
			w.faults.Add("slow_parse", 1)
		}
		for i := 0; i < n; i++ {
			simrt.Yield()
		}
	}
	checked := false
	stable := func() {
		// also runs when the parser task dies inside Parse (panic, budget overrun)
		if !checked && !bytes.Equal(b, in) {
			w.violate("input-stability", "input-modified-during-parse", "", fmt.Sprintf("frame xid=%#x was modified while it was being parsed (first difference at %d)", xid, firstDiff(b, in)))
		}
		checked = true
	}
	defer stable()
	msg, err := w.parseUnderBudget(b, fs)
	stable()
	fs.parsed = true
	fs.msg, fs.perr = msg, err
	if msg != nil && !isNilMsg(msg) {
		rv := reflect.ValueOf(msg)
		if rv.Kind() == reflect.Ptr {
			fs.msgPtr = rv.Pointer()
			if o := w.byPtr[fs.msgPtr]; o != nil && o != fs {
				w.violate("delivery", "same-object-for-two-frames", "", "parser returned the same object for two frames")
			}
			w.byPtr[fs.msgPtr] = fs
		}
		fs.hash0 = hlib.DeepHash(msg)
		w.afterParse(b, fs)
	}
	return msg, err
}

func isNilMsg(m util.Message) bool {
	rv := reflect.ValueOf(m)
	return rv.Kind() == reflect.Ptr && rv.IsNil()
}

func firstDiff(a, b []byte) int {
	n := len(a)
	if len(b) < n {
		n = len(b)
	}
	for i := 0; i < n; i++ {
		if a[i] != b[i] {
			return i
		}
	}
	return n
}

// parseUnderBudget and afterParse are extended by the C07/C08/C12 code (hooks.go).
func (w *world) parseUnderBudget(b []byte, fs *frameState) (util.Message, error) {
	if hookParse != nil {
		return hookParse(w, b, fs)
	}
	return openflow13.Parse(b)
}

func (w *world) afterParse(b []byte, fs *frameState) {
	if hookAfterParse != nil {
		hookAfterParse(w, b, fs)
	}
}

var hookParse func(w *world, b []byte, fs *frameState) (util.Message, error)
var hookAfterParse func(w *world, b []byte, fs *frameState)
var hookConsume func(w *world, fs *frameState, msg util.Message)
var hookEnd func(w *world)

// ---------------------------------------------------------------- stub application tasks

func (w *world) consumer() {
	sc := w.sc
	stallAt := map[int]int{}
	for _, s := range sc.Consumer.Stalls {
		stallAt[s[0]] += s[1]
	}
	n := 0
	for {
		if sc.Consumer.StopAfter > 0 && n >= sc.Consumer.StopAfter {
			w.consumerStopped = true
			w.faults.Add("consumer_stops", 1)
			return
		}
		if sc.Consumer.StopAfterError && len(w.errorsSeen) > 0 {
			w.consumerStopped = true
			w.faults.Add("consumer_stops_after_error", 1)
			return
		}
		if k := stallAt[n]; k > 0 {
			w.faults.Add("consumer_stall", 1)
			for i := 0; i < k; i++ {
				simrt.Yield()
			}
		}
		for _, sl := range sc.Consumer.Sleeps {
			if sl[0] == n {
				// the application is busy for a stretch of simulated time (a stalled node)
				w.faults.Add("consumer_sleeps_simulated_time", 1)
				simrt.Sleep(time.Duration(sl[1]) * time.Millisecond)
			}
		}
		msg, ok := <-simrt.RC(-1, w.stream.Inbound)
		if !ok {
			return
		}
		w.onDeliver(msg)
		n++
		if t := sc.Consumer.ThinkMax; t > 0 {
			k := int(simrt.Mix(sc.RunSeed, 0xc0, uint64(n)) % uint64(t+1))
			for i := 0; i < k; i++ {
				simrt.Yield()
			}
		}
	}
}

func (w *world) onDeliver(msg util.Message) {
	w.delivered++
	w.sim.Event(0xde11, uint64(w.delivered))
	if msg == nil || isNilMsg(msg) {
		w.nilDelivered++
		return
	}
	rv := reflect.ValueOf(msg)
	if rv.Kind() != reflect.Ptr {
		return
	}
	fs := w.byPtr[rv.Pointer()]
	if fs == nil && w.sc.Tail != "" && totalityProp(w.sc.Property) {
		return // parsed from the desynchronised tail
	}
	if fs == nil {
		w.violate("delivery", "foreign-message", "", fmt.Sprintf("consumer received a %T that the parser never returned", msg))
		return
	}
	fs.delivered++
	fs.delivStep = w.sim.Steps
	if fs.delivered > 1 {
		w.violate("delivery", "duplicate-delivery", "", fmt.Sprintf("message of frame xid=%#x delivered %d times", fs.f.Xid, fs.delivered))
	}
	if w.failStep >= 0 && fs.end > w.conn.pos {
		w.violate("delivery", "incomplete-frame-delivered", "", "message of an incomplete frame delivered")
	}
	if hookConsume != nil {
		hookConsume(w, fs, msg)
	}
}

func (w *world) errorWatcher() {
	for {
		err, ok := <-simrt.RC(-1, w.stream.Error)
		if !ok {
			return
		}
		s := "<nil>"
		if err != nil {
			s = err.Error()
		}
		w.errorsSeen = append(w.errorsSeen, s)
		if len(w.errorsSeen) == 1 {
			w.errStep = w.sim.Steps
		}
		w.sim.Event(0xe44, uint64(len(w.errorsSeen)))
	}
}

func (w *world) shutdownApp() {
	for i := 0; i < w.sc.ShutdownAfter; i++ {
		simrt.Yield()
	}
	w.shutdownReqStep = w.sim.Steps
	w.faults.Add("local_shutdown", 1)
	simrt.BeforeSend(-1, w.stream.Shutdown)
	w.stream.Shutdown <- true
	simrt.AfterSend(-1)
}

type rawMsg struct{ b []byte }

func (r *rawMsg) MarshalBinary() ([]byte, error) { return append([]byte(nil), r.b...), nil }
func (r *rawMsg) UnmarshalBinary([]byte) error   { return nil }
func (r *rawMsg) Len() uint16                    { return uint16(len(r.b)) }

func (w *world) producer(pi int) {
	p := &w.sc.Producers[pi]
	w.activeProducers++
	defer func() { w.activeProducers-- }()
	var last util.Message
	var lastOut *outState
	for i := range p.Msgs {
		o := w.outs[w.prodBase(pi)+i]
		var msg util.Message
		if o.m.Kind == "same" && last != nil {
			msg = last // resubmission of the same object
			o = lastOut
		} else {
			var err error
			msg, err = buildOut(o.m)
			if err != nil {
				panic("harness: " + err.Error())
			}
			last, lastOut = msg, o
		}
		if t := p.ThinkMax; t > 0 {
			k := int(simrt.Mix(w.sc.RunSeed, 0x9d, uint64(pi), uint64(i)) % uint64(t+1))
			for j := 0; j < k; j++ {
				simrt.Yield()
			}
		}
		for _, ps := range p.Pauses {
			if ps[0] != i {
				continue
			}
			if ps[1] > 0 {
				w.faults.Add("producer_pause_simulated_time", 1)
				simrt.Sleep(time.Duration(ps[1]) * time.Millisecond)
			} else if ts := w.sim.PendingTimes(); len(ts) > 0 {
				at := ts[int(simrt.Mix(w.sc.RunSeed, 0x7a1, uint64(pi), uint64(i))%uint64(len(ts)))]
				w.faults.Add("producer_submission_aligned_with_pending_timer", 1)
				simrt.Sleep(time.Duration(at - w.sim.NowNS()))
			}
		}
		if w.activeProducers > 1 {
			w.prodOverlap = true
		}
		simrt.BeforeSend(-1, w.stream.Outbound)
		w.stream.Outbound <- msg
		simrt.AfterSend(-1)
		o.submitted++
		w.sim.Event(0x5ab, uint64(o.m.Xid))
	}
}

func (w *world) prodBase(pi int) int {
	n := 0
	for i := 0; i < pi; i++ {
		n += len(w.sc.Producers[i].Msgs)
	}
	return n
}

// checkWire re-frames the recorded outbound byte stream using the EXPECTED encodings.
func (w *world) checkWire(final bool) {
	for w.wirePos < len(w.wire) {
		rest := w.wire[w.wirePos:]
		if len(rest) < 8 {
			if final {
				w.violate("wire", "partial-frame-on-wire", "", fmt.Sprintf("%d stray bytes at the end of the wire", len(rest)))
			}
			return
		}
		xid := binary.BigEndian.Uint32(rest[4:8])
		o := w.outByXid[xid]
		if o == nil {
			w.violate("wire", "unknown-bytes-on-wire", "", fmt.Sprintf("wire offset %d: bytes % x belong to no submitted message", w.wirePos, rest[:8]))
			w.wirePos = len(w.wire)
			return
		}
		n := len(o.expected)
		have := len(rest)
		if have > n {
			have = n
		}
		if !bytes.Equal(rest[:have], o.expected[:have]) {
			w.violate("wire", "message-corrupted-or-interleaved", "", fmt.Sprintf("wire offset %d: message xid=%#x (producer %d #%d, %d bytes) differs from its encoding at byte %d", w.wirePos, xid, o.prod, o.seq, n, firstDiff(rest[:have], o.expected[:have])))
			w.wirePos = len(w.wire)
			return
		}
		if have < n {
			if final {
				w.violate("wire", "partial-frame-on-wire", "", fmt.Sprintf("message xid=%#x only partly written (%d of %d bytes)", xid, have, n))
			}
			return
		}
		o.seen++
		// every occurrence must correspond to a submission (taken from the channel means submitted or in the act of submitting)
		if o.seen > o.submitted+1 || o.seen > w.totalSubmissions(o) {
			w.violate("wire", "message-written-twice", "", fmt.Sprintf("message xid=%#x (producer %d #%d) appears %d times on the wire", xid, o.prod, o.seq, o.seen))
		}
		if o.prod >= 0 {
			if o.seq < w.prodNext[o.prod] && o.seen <= w.totalSubmissions(o) && w.totalSubmissions(o) == 1 {
				// already counted as duplicate above
			} else if o.seq > w.prodNext[o.prod] {
				w.violate("wire", "producer-order", "", fmt.Sprintf("producer %d: message #%d written before #%d", o.prod, o.seq, w.prodNext[o.prod]))
				w.prodNext[o.prod] = o.seq
			}
			if o.seen >= w.totalSubmissions(o) && o.seq == w.prodNext[o.prod] {
				w.prodNext[o.prod] = o.seq + w.totalSubmissions(o)
			}
		}
		w.wirePos += n
	}
}

// totalSubmissions is how many times the producer's script submits this object.
func (w *world) totalSubmissions(o *outState) int {
	n := 1
	p := &w.sc.Producers[o.prod]
	for i := o.seq + 1; i < len(p.Msgs) && p.Msgs[i].Kind == "same"; i++ {
		n++
	}
	return n
}

// ---------------------------------------------------------------- abstract state

func chanLen(v reflect.Value, name string) uint64 {
	f := v.FieldByName(name)
	if !f.IsValid() || f.Kind() != reflect.Chan || f.IsNil() {
		return 0
	}
	return uint64(f.Len())
}

func (w *world) onStep(s *simrt.Sim, released *simrt.Task) {
	if w.stream == nil {
		return
	}
	sv := reflect.ValueOf(w.stream).Elem()
	var lenE, lenF uint64
	if pf := sv.FieldByName("pool"); pf.IsValid() && pf.Kind() == reflect.Ptr && !pf.IsNil() {
		pv := pf.Elem()
		lenE, lenF = chanLen(pv, "Empty"), chanLen(pv, "Full")
	}
	h := uint64(1469598103934665603)
	mixin := func(v uint64) { h ^= v; h *= 1099511628211 }
	mixin(lenE)
	mixin(lenF)
	mixin(chanLen(sv, "Inbound"))
	mixin(chanLen(sv, "Outbound"))
	mixin(chanLen(sv, "Error"))
	mixin(chanLen(sv, "Shutdown"))
	mixin(chanLen(sv, "parserShutdown"))
	// multiset of (class, gate kind, site) — order independent sum
	var sum uint64
	parsersOnInbound := 0
	for _, t := range s.Live() {
		k := t.PendKind()
		sum += simrt.Mix(simrt.HashString(t.Class), simrt.HashString(k), uint64(uint32(t.PendSite())))
		if t.Class == "parser" && k == "send" {
			parsersOnInbound++
		}
	}
	mixin(sum)
	if w.failStep >= 0 {
		mixin(0xfa11)
	}
	w.states.Add(h)
	w.trans.Add(simrt.Mix(w.lastAbs, h, simrt.HashString(released.Class)))
	w.lastAbs = h
	if lenE == 0 && lenF > 0 {
		w.probes.Add("pool_exhausted_steps", 1)
	}
	if parsersOnInbound >= 20 {
		w.probes.Add("many_parsers_blocked_on_inbound_steps", 1)
	}
	if lenF > 0 && released.Class == "reader" {
		w.readerSwitchInFull = true
	}
	w.maxima.Obs("max_full_queue", float64(lenF))
}

func classify(site string) string {
	switch {
	case strings.Contains(site, ":NewMessageStream:go:"):
		// distinguished by the text hash; fall through to the function named in the site table
	}
	return "stream"
}

// classifyBySite maps the go-statement site to a task class using the original statement text.
func classifyBySite() func(string) string {
	byName := map[string]string{}
	for _, s := range simrt.Sites {
		if s.Kind != "go" {
			continue
		}
		c := "stream"
		switch {
		case strings.Contains(s.Text, "inbound"):
			c = "reader"
		case strings.Contains(s.Text, "outbound"):
			c = "writer"
		case strings.Contains(s.Text, "parse"):
			c = "parser"
		case strings.Contains(s.Text, "shutdown"):
			c = "shutdown"
		case strings.HasPrefix(s.Text, "go func") && strings.Contains(s.Func, "shutdown"):
			c = "drain"
		}
		byName[s.Name] = c
	}
	return func(n string) string {
		if c, ok := byName[n]; ok {
			return c
		}
		return "stream"
	}
}
