package main

import (
	"encoding/binary"
	"encoding/hex"
	"fmt"

	"github.com/contiv/libOpenflow/simrt"
)

// Frame describes one inbound frame of the peer script.
type Frame struct {
	Kind string `json:"kind"`
	Size int    `json:"size"`
	Xid  uint32 `json:"xid"`
	Seed uint64 `json:"seed"`
	Hex  string `json:"hex,omitempty"` // explicit bytes (replay files); overrides the descriptor
	// faults applied to the frame in flight (C07/C08)
	Faults []FaultOp `json:"faults,omitempty"`

	bytes []byte
}

// FaultOp is one in-flight damage operator.
type FaultOp struct {
	Op  string `json:"op"`
	Off int    `json:"off"`
	Val uint64 `json:"val"`
	N   int    `json:"n,omitempty"`
}

// Failure is the connection failure injected into the inbound direction.
type Failure struct {
	Kind   string `json:"kind"` // eof | reset | timeout
	AtByte int    `json:"at_byte"`
}

// Arrival makes bytes [prev.Upto, Upto) available DelayUS after the previous burst.
type Arrival struct {
	Upto    int `json:"upto"`
	DelayUS int `json:"delay_us"`
}

// Consumer describes the stub application reading Inbound.
type Consumer struct {
	ThinkMax       int      `json:"think_max"`                  // 0..ThinkMax yields per message
	Stalls         [][2]int `json:"stalls,omitempty"`           // [message index, yields]
	StopAfterError bool     `json:"stop_after_error,omitempty"` // stops reading once an error was seen
	StopAfter      int      `json:"stop_after,omitempty"`       // stops reading after N messages (0 = never)
	Hold           bool     `json:"hold,omitempty"`             // keep every message until the end (C12)
	Sleeps         [][2]int `json:"sleeps_ms,omitempty"`        // [message index, milliseconds of simulated time the application is busy]
}

// OutMsg is one message a producer submits.
type OutMsg struct {
	Kind string `json:"kind"` // raw | lib:<name>
	Size int    `json:"size"`
	Xid  uint32 `json:"xid"`
	Seed uint64 `json:"seed"`

	expected []byte
}

// Producer is one stub producer task.
type Producer struct {
	Msgs     []OutMsg `json:"msgs"`
	ThinkMax int      `json:"think_max"`
	// Pauses: before message [0] the producer waits [1] ms of simulated time; [1] == 0 means
	// "until the instant one of the timers pending in the simulation fires" (whichever the
	// run seed picks): a submission that coincides with a timer of the code under test.
	Pauses [][2]int `json:"pauses,omitempty"`
}

type GoStall struct {
	PerMille        int `json:"per_mille"`
	ArrivalPerMille int `json:"arrival_per_mille"`
	MaxUS           int `json:"max_us"`
}

// Scenario is everything that defines one run besides the schedule decisions.
type Scenario struct {
	Property string             `json:"property"`
	RunSeed  uint64             `json:"run_seed"`
	Strategy simrt.StrategySpec `json:"strategy"`
	StepCost int                `json:"step_cost_us,omitempty"` // max simulated µs per step (0 = time only advances when idle)
	// GoStall: goroutines of the code under test are descheduled for simulated time at some of
	// their synchronisation points (a slow or stalled thread): per-mille chance at an ordinary
	// point / at the point in front of a blocking operation on an unbuffered channel.
	GoStall *GoStall `json:"go_stall,omitempty"`
	Class   string   `json:"class"` // fault-free | faulty

	Frames        []Frame   `json:"frames"`
	Chunks        []int     `json:"chunks,omitempty"`
	EmptyReads    []int     `json:"empty_reads,omitempty"`
	Arrivals      []Arrival `json:"arrivals,omitempty"`
	Failure       *Failure  `json:"failure,omitempty"`
	ShutdownAfter int       `json:"shutdown_after,omitempty"` // app requests local shutdown after N app steps (0 = never)
	Consumer      Consumer  `json:"consumer"`
	ParserDelay   int       `json:"parser_delay,omitempty"` // 0..N yields inside the parser before parsing
	Scribble      bool      `json:"scribble,omitempty"`     // overwrite the input right after Parse returns
	SharedCodec   bool      `json:"shared_codec,omitempty"` // scheduling points at shared-state accesses inside the codec
	Trailer       int       `json:"trailer,omitempty"`      // bytes of an incomplete trailing frame appended after the last frame
	// Tail (hex): raw bytes appended after everything else that the de-framer has to cope with on
	// its own - a header whose length field is below 8, garbage (C07: the framing is lost from
	// here on, so nothing after this point is attributed to a sent frame)
	Tail string `json:"tail,omitempty"`

	Producers   []Producer `json:"producers,omitempty"`
	WriteStalls []int      `json:"write_stalls_us,omitempty"`
	// PartialWrite: when a stalled Write runs into its deadline, this many bytes (mod the size
	// of the write) were accepted before the timeout is reported (0 = none)
	PartialWrite int `json:"partial_write,omitempty"`

	// C07/C08
	Direct []Frame `json:"direct,omitempty"` // byte strings handed straight to the decoder entry points
	Target string  `json:"target,omitempty"` // decoder entry for Direct: parse | eth | ipv4 | ...
}

func putHeader(b []byte, typ uint8, xid uint32) {
	b[0] = 4
	b[1] = typ
	binary.BigEndian.PutUint16(b[2:], uint16(len(b)))
	binary.BigEndian.PutUint32(b[4:], xid)
}

// simpleKinds are frame kinds whose decoding does not depend on anything but the header
// and simple fixed fields, so that C10/C11 do not import codec defects.
var simpleKinds = []string{"echo_req", "echo_rep", "error", "barrier_req", "barrier_rep", "hello", "features_req", "getconfig_req", "getconfig_rep", "setconfig"}

// Build materialises the frame bytes from the descriptor.
func (f *Frame) Build() ([]byte, error) {
	if f.bytes != nil {
		return f.bytes, nil
	}
	if f.Hex != "" {
		b, err := hex.DecodeString(f.Hex)
		if err != nil {
			return nil, err
		}
		if f.Kind == "bare" {
			// a bare decoder input: Hex is the undamaged input, the damage operators still apply
			// (for every other kind Hex holds the final bytes of a materialised replay file)
			for _, op := range f.Faults {
				b = applyFault(b, op)
			}
		}
		f.bytes = b
		return b, nil
	}
	r := simrt.NewRNG(f.Seed)
	size := f.Size
	if size < 8 {
		size = 8
	}
	if size > 65535 {
		size = 65535
	}
	var b []byte
	switch f.Kind {
	case "echo_req", "echo_rep":
		b = r.Bytes(size)
		t := uint8(2)
		if f.Kind == "echo_rep" {
			t = 3
		}
		putHeader(b, t, f.Xid)
	case "error":
		if size < 12 {
			size = 12
		}
		b = r.Bytes(size)
		putHeader(b, 1, f.Xid)
		binary.BigEndian.PutUint16(b[8:], uint16(r.Intn(14)))
	case "barrier_req", "barrier_rep", "features_req", "getconfig_req":
		b = make([]byte, 8)
		t := map[string]uint8{"barrier_req": 20, "barrier_rep": 21, "features_req": 5, "getconfig_req": 7}[f.Kind]
		putHeader(b, t, f.Xid)
	case "getconfig_rep", "setconfig":
		b = r.Bytes(12)
		t := uint8(8)
		if f.Kind == "setconfig" {
			t = 9
		}
		putHeader(b, t, f.Xid)
	case "hello":
		k := (size - 12) / 4
		if k < 0 {
			k = 0
		}
		if k > 16000 {
			k = 16000
		}
		b = r.Bytes(12 + 4*k)
		putHeader(b, 0, f.Xid)
		binary.BigEndian.PutUint16(b[8:], 1)
		binary.BigEndian.PutUint16(b[10:], uint16(4+4*k))
	default:
		var err error
		b, err = corpusFrame(f.Kind, f.Xid, r, size)
		if err != nil {
			return nil, err
		}
	}
	for _, op := range f.Faults {
		b = applyFault(b, op)
	}
	f.bytes = b
	f.Size = len(b)
	return b, nil
}

// corpusFrame is replaced by the all-kinds corpus (corpus.go).
var corpusFrame = func(kind string, xid uint32, r *simrt.RNG, size int) ([]byte, error) {
	return nil, fmt.Errorf("unknown frame kind %q", kind)
}

var applyFault = func(b []byte, op FaultOp) []byte { return b }

// Build materialises a raw outbound message.
func (m *OutMsg) Build() []byte {
	if m.expected != nil {
		return m.expected
	}
	r := simrt.NewRNG(m.Seed)
	size := m.Size
	if size < 8 {
		size = 8
	}
	if size > 65535 {
		size = 65535
	}
	b := r.Bytes(size)
	putHeader(b, uint8(2+r.Intn(2)), m.Xid)
	m.expected = b
	return b
}
