package main

import (
	"fmt"
	"reflect"
	"regexp"
	"runtime/metrics"
	"strings"
	"unsafe"

	"github.com/contiv/libOpenflow/cmd/hlib"
	"github.com/contiv/libOpenflow/openflow13"
	"github.com/contiv/libOpenflow/simrt"
	"github.com/contiv/libOpenflow/util"
)

// This file connects the all-kinds corpus and adds the oracles of C12 (ownership of parsed
// messages), C07 and C08 (totality under in-flight damage).

func init() {
	corpusFrame = func(kind string, xid uint32, r *simrt.RNG, size int) ([]byte, error) {
		if strings.HasPrefix(kind, "pktin:") {
			return packetInFrame(kind[len("pktin:"):], xid, r, size)
		}
		b, _, err := hlib.WireFrame(kind, xid, r, size)
		return b, err
	}
	hookParse = budgetedParse
	hookAfterParse = ownershipAtParse
	hookConsume = appStub
	hookEnd = endOracles
	hookPanic = totalityPanic
	hookDirect = directLeg
	generators["C12"] = genC12
	generators["C07"] = genC07
	generators["C08"] = genC08
}

// packetInFrame wraps a corpus packet of the given kind into a minimal, hand-written
// packet-in frame (independent of the library's encoders).
func packetInFrame(pktKind string, xid uint32, r *simrt.RNG, size int) ([]byte, error) {
	b, _ := packetInMarked(pktKind, xid, r, size)
	return b, nil
}

func packetInMarked(pktKind string, xid uint32, r *simrt.RNG, size int) ([]byte, []hlib.Mark) {
	pkt, pm := hlib.Packet(pktKind, r, size)
	w := &hlib.W{}
	w.U8(4)
	w.U8(10)
	w.U16(0)
	w.U32(xid)
	w.U32(0xffffffff) // buffer id: not buffered
	w.MU16(uint16(len(pkt)), "packet_in.total_len")
	w.U8(uint8(r.Intn(3))) // reason
	w.U8(uint8(r.Intn(4))) // table
	w.U64(r.Uint64())      // cookie
	w.U16(1)               // match type OXM
	w.U16(4)               // match length (no fields)
	w.Zero(4)              // match padding to 8
	w.Zero(2)
	w.AppendRaw(pkt, pm)
	if len(w.B) > 65535 {
		w.B = w.B[:65535]
	}
	w.Put16(2, uint16(len(w.B)))
	return w.B, w.Marks
}

// ---------------------------------------------------------------- budgets (C07/C08)

// heapAllocated returns the cumulative number of bytes the process has allocated.
var allocSample = []metrics.Sample{{Name: "/gc/heap/allocs:bytes"}}

func heapAllocated() uint64 {
	metrics.Read(allocSample)
	if allocSample[0].Value.Kind() == metrics.KindUint64 {
		return allocSample[0].Value.Uint64()
	}
	return 0
}

// realAllocBound: what one decoder call may really allocate (everything, including what the
// standard library allocates on its behalf - formatting an error, growing a buffer). Far above
// anything a linear decoder does (measured maxima are reported in the evidence), far below a
// quadratic or cubic blow-up on inputs of some KiB.
func realAllocBound(n int) uint64 { return 8<<20 + 512*uint64(n) }

func (w *world) checkRealAlloc(before uint64, stepsBefore int, what string, n int) {
	if w.sim.Steps != stepsBefore {
		return // other tasks ran in between: the delta is not this call's
	}
	d := heapAllocated() - before
	w.maxima.Obs("max_real_alloc_bytes_per_input_byte", float64(d)/float64(n+64))
	if d > realAllocBound(n) {
		w.violate("totality", "memory-not-proportional-to-input", "measured-heap-allocation", fmt.Sprintf("%s allocated %d bytes on the heap for a %d-byte input (bound %d)", what, d, n, realAllocBound(n)))
	}
}

func parseBudget(n int) *simrt.Budget {
	return &simrt.Budget{MaxTicks: 4096 + 32*int64(n), MaxAlloc: 1<<20 + 64*int64(n)}
}

type budgetRec struct {
	b    *simrt.Budget
	fs   *frameState
	what string
	n    int
}

func totalityProp(p string) bool { return p == "C07" || p == "C08" }

// budgetedParse is the parser the stream's parser goroutines end up calling.
func budgetedParse(w *world, b []byte, fs *frameState) (util.Message, error) {
	bud := parseBudget(len(b))
	w.budgets = append(w.budgets, budgetRec{b: bud, fs: fs, what: "parser goroutine: openflow13.Parse", n: len(b)})
	a0, s0 := heapAllocated(), w.sim.Steps
	simrt.Arm(bud)
	m, err := openflow13.Parse(b) // a panic or budget overrun ends this parser task, as it would the process / the goroutine
	simrt.Disarm()
	if totalityProp(w.sc.Property) {
		w.checkRealAlloc(a0, s0, "parser goroutine: openflow13.Parse", len(b))
	}
	w.maxima.Obs("max_ticks_per_byte_stream_leg", float64(bud.Ticks)/float64(len(b)+1))
	if len(b) > 8 {
		w.decoderPastHeader = true
	}
	return m, err
}

var numRe = regexp.MustCompile(`[0-9]+`)

// panicClass removes the numbers from a runtime panic message so that it names the kind of
// failure, not the particular input.
func panicClass(s string) string {
	s = numRe.ReplaceAllString(s, "N")
	if len(s) > 80 {
		s = s[:80]
	}
	return s
}

func hotSite(b *simrt.Budget) string {
	if b.HotSite >= 0 && int(b.HotSite) < len(simrt.Sites) {
		s := simrt.Sites[b.HotSite]
		return s.Pkg + "." + s.Func
	}
	return ""
}

// totalityPanic: a panic that escaped the parser entry point inside a parser goroutine.
func totalityPanic(w *world, p simrt.PanicInfo) bool {
	if !totalityProp(w.sc.Property) || p.Class != "parser" {
		return false
	}
	w.violate("totality", "panic: "+panicClass(p.Val), p.Top, fmt.Sprintf("a parser goroutine crashed on a frame damaged in flight (the process would have died): %s in %s", p.Val, p.Top))
	return true
}

// guarded runs one harness-driven decoder call under the budgets, converting panics and
// overruns into violations of the totality oracles. It returns false when the call failed.
func (w *world) guarded(what string, n int, f func()) (ok bool) {
	bud := parseBudget(n)
	bud.PanicOnExceed = true
	simrt.Arm(bud)
	defer func() {
		simrt.Disarm()
		if r := recover(); r != nil {
			ok = false
			if be, isB := r.(simrt.BudgetExceeded); isB {
				w.budgetViolation(be.B, what, n)
				return
			}
			val := fmt.Sprint(r)
			if e, isE := r.(error); isE {
				val = e.Error()
			}
			if strings.HasPrefix(val, "harness:") {
				panic(r)
			}
			top := simrt.TopFrame()
			w.violate("totality", "panic: "+panicClass(val), top, fmt.Sprintf("%s panicked on a %d-byte input: %s in %s", what, n, val, top))
			return
		}
		if bud.Exceeded != "" {
			// swallowed by a recover inside the code under test: still an overrun
			ok = false
			w.budgetViolation(bud, what, n)
		}
		w.maxima.Obs("max_ticks_per_byte_direct", float64(bud.Ticks)/float64(n+1))
	}()
	a0, s0 := heapAllocated(), w.sim.Steps
	f()
	w.checkRealAlloc(a0, s0, what, n)
	return true
}

func (w *world) budgetViolation(b *simrt.Budget, what string, n int) {
	switch b.Exceeded {
	case "ticks":
		w.violate("totality", "time-not-proportional-to-input", hotSite(b), fmt.Sprintf("%s did not finish within %d loop iterations/calls on a %d-byte input (endless or super-linear loop at %s)", what, b.MaxTicks, n, hotSite(b)))
	case "alloc":
		w.violate("totality", "memory-not-proportional-to-input", hotSite(b), fmt.Sprintf("%s requested more than %d bytes from make() on a %d-byte input (at %s)", what, b.MaxAlloc, n, hotSite(b)))
	}
}

// directLeg hands byte strings straight to a decoder entry point (inputs the de-framer
// cannot produce: shorter than a header, inconsistent length field, bare packet bytes).
func directLeg(w *world) {
	for i := range w.sc.Direct {
		f := &w.sc.Direct[i]
		b, err := f.Build()
		if err != nil {
			panic("harness: " + err.Error())
		}
		in := append([]byte(nil), b...)
		target := w.sc.Target
		w.faults.Add("direct_input", 1)
		w.guarded("decoder entry "+target, len(in), func() {
			if target == "" || target == "parse" {
				openflow13.Parse(in)
				return
			}
			hlib.RunDecoder(target, in)
		})
		if len(in) > 8 {
			w.decoderPastHeader = true
		}
		if i%8 == 7 {
			simrt.Yield()
		}
	}
}

// appStub is the controller application: for C08 it runs the second-stage decoders real
// applications run on a delivered packet-in, in the consumer task.
func appStub(w *world, fs *frameState, msg util.Message) {
	if w.sc.Property != "C08" {
		return
	}
	if _, ok := msg.(*openflow13.PacketIn); !ok {
		return
	}
	w.guarded("application second-stage decoders", len(fs.data), func() {
		steps, _ := hlib.AppDemux(msg)
		for _, s := range steps {
			w.probes.Add("app_demux_"+s, 1)
		}
	})
}

// ---------------------------------------------------------------- ownership (C12, C10)

// ownershipAtParse runs at the instant the real Parse returned, while the wrapper still
// holds the input slice: nothing reachable from the message may point into the input buffer.
func ownershipAtParse(w *world, b []byte, fs *frameState) {
	if cap(b) > 0 {
		lo := uintptr(unsafe.Pointer(&b[:1][0]))
		hi := lo + uintptr(cap(b))
		if path := hlib.Alias(fs.msg, lo, hi); path != "" {
			w.violate("ownership", "message-aliases-input-buffer", fmt.Sprintf("%T", fs.msg), fmt.Sprintf("message parsed from frame xid=%#x (%s) keeps a reference into its input buffer at %s", fs.f.Xid, fs.f.Kind, path))
		}
	}
	if w.sc.Scribble {
		// the most adversarial legal schedule: the reader refills this buffer at once
		pat := byte(simrt.Mix(w.sc.RunSeed, uint64(fs.f.Xid)) | 1)
		for i := range b {
			b[i] ^= pat
		}
		w.faults.Add("scribble", 1)
	}
}

// exactCopy returns a private copy of b whose capacity equals its length.
func exactCopy(b []byte) []byte {
	c := make([]byte, len(b))
	copy(c, b)
	return c[:len(c):len(c)]
}

func safeParse(b []byte) (m util.Message, err error, failed string) {
	defer func() {
		if r := recover(); r != nil {
			failed = fmt.Sprint(r)
		}
	}()
	m, err = openflow13.Parse(b)
	return
}

func encodeOnce(m util.Message) (out string) {
	defer func() {
		if r := recover(); r != nil {
			out = "panic:" + panicClass(fmt.Sprint(r))
		}
	}()
	b, err := m.MarshalBinary()
	if err != nil {
		return "error:" + err.Error()
	}
	return string(b)
}

func endOracles(w *world) {
	// budget overruns in parser tasks
	for _, br := range w.budgets {
		if br.b.Exceeded == "" {
			continue
		}
		if totalityProp(w.sc.Property) {
			w.budgetViolation(br.b, br.what, br.n)
		} else {
			// frames of these workloads were validated to parse within the budget: a parser
			// goroutine that spins on one of them is wedged (typically because the bytes
			// changed under it, which the input-stability oracle reports as well)
			w.violate("crash", "parser-goroutine-wedged", hotSite(br.b), fmt.Sprintf("a parser goroutine did not finish parsing frame xid=%#x (%s, %d bytes) within %d loop iterations/calls (spinning at %s)", br.fs.f.Xid, br.fs.f.Kind, br.n, br.b.MaxTicks, hotSite(br.b)))
		}
	}
	if w.sc.Property != "C12" {
		return
	}
	// every held message equals a control parse of a private copy of its frame
	for _, fs := range w.frames {
		if fs.msg == nil || isNilMsg(fs.msg) || fs.perr != nil {
			continue
		}
		ctl, cerr, failed := safeParse(exactCopy(fs.data))
		if failed != "" || cerr != nil || ctl == nil || isNilMsg(ctl) {
			w.probes.Add("control_parse_failed", 1)
			continue
		}
		w.probes.Add("held_messages_compared", 1)
		typ := fmt.Sprintf("%T", fs.msg)
		if reflect.TypeOf(ctl) != reflect.TypeOf(fs.msg) || hlib.DeepHash(ctl) != hlib.DeepHash(fs.msg) {
			w.violate("ownership", "held-message-differs-from-control-parse", typ, fmt.Sprintf("message of frame xid=%#x (%s, %d bytes) held by the consumer no longer equals a fresh parse of the same bytes (its input buffer was reused)", fs.f.Xid, fs.f.Kind, len(fs.data)))
			continue
		}
		if encodeOnce(fs.msg) != encodeOnce(ctl) {
			w.violate("ownership", "re-encoding-differs-from-control-parse", typ, fmt.Sprintf("re-encoding of the held message of frame xid=%#x (%s) differs from the re-encoding of a fresh parse of the same bytes", fs.f.Xid, fs.f.Kind))
		}
	}
}

// ---------------------------------------------------------------- generators

// validFrame reports whether the current tree parses b to a non-nil message without error,
// panic or budget overrun (C10/C12 quantify over parseable frames; codec defects on a
// frame are C04/C07 matters and must not be imported).
func validFrame(b []byte) bool {
	if len(b) < 8 {
		return false
	}
	ok := false
	func() {
		bud := parseBudget(len(b))
		bud.PanicOnExceed = true
		simrt.Arm(bud)
		defer func() {
			simrt.Disarm()
			if r := recover(); r != nil {
				ok = false
			}
		}()
		// capacity == length: a decoder that reads past the end of the frame (possible on a
		// damaged frame, where it would see stale bytes of the pool buffer) panics here and the
		// frame is not used; what is used behaves the same whatever lies behind the frame
		m, err := openflow13.Parse(exactCopy(b))
		ok = err == nil && m != nil && !isNilMsg(m) && bud.Exceeded == ""
		if ok {
			// held messages are re-encoded by the C12 oracle
			encodeOnce(m)
		}
	}()
	return ok
}

func corpusKindsAll() []string {
	ks := append([]string(nil), hlib.WireKinds()...)
	for _, p := range hlib.PacketKinds() {
		ks = append(ks, "pktin:"+p)
	}
	return ks
}

// genCorpusFrame draws a frame of the all-kinds corpus; with probability pDamage it applies
// one or two in-flight damage operators that leave it parseable; falls back to a simple
// frame when the tree does not parse the drawn frame.
func genCorpusFrame(pDamage float64) func(r *simrt.RNG, xid uint32, big *int) Frame {
	kinds := corpusKindsAll()
	return func(r *simrt.RNG, xid uint32, big *int) Frame {
		if len(kinds) == 0 || r.Chance(0.2) {
			return genSimpleFrame(r, xid, big)
		}
		for attempt := 0; attempt < 4; attempt++ {
			size := genFrameSize(r, big)
			f := Frame{Kind: kinds[r.Intn(len(kinds))], Size: size, Xid: xid, Seed: r.Uint64()}
			b, err := f.Build()
			if err != nil || !validFrame(b) {
				continue
			}
			if r.Chance(pDamage) {
				marks := frameMarks(&f)
				g := f
				g.bytes = nil
				k := 1 + r.Intn(2)
				for i := 0; i < k; i++ {
					g.Faults = append(g.Faults, randomFault(r, b, marks, 8, true))
				}
				if gb, err := g.Build(); err == nil && len(gb) >= 8 && validFrame(gb) {
					return g
				}
			}
			return f
		}
		return genSimpleFrame(r, xid, big)
	}
}

// frameMarks regenerates the field marks of an undamaged corpus frame.
func frameMarks(f *Frame) []hlib.Mark {
	r := simrt.NewRNG(f.Seed)
	if strings.HasPrefix(f.Kind, "pktin:") {
		_, m := packetInMarked(f.Kind[len("pktin:"):], f.Xid, r, clampSize(f.Size))
		return m
	}
	for _, k := range simpleKinds {
		if k == f.Kind {
			return []hlib.Mark{{Off: 0, Width: 1, What: "of.version"}, {Off: 1, Width: 1, What: "of.type"}, {Off: 8, Width: 2, What: "body.first16"}, {Off: 10, Width: 2, What: "body.second16"}}
		}
	}
	_, m, _ := hlib.WireFrame(f.Kind, f.Xid, r, clampSize(f.Size))
	return m
}

func clampSize(size int) int {
	if size < 8 {
		return 8
	}
	if size > 65535 {
		return 65535
	}
	return size
}

func genC12(seed uint64) *Scenario {
	r := simrt.NewRNG(seed)
	sc := &Scenario{Property: "C12", RunSeed: seed}
	faulty := !r.Chance(0.25)
	sc.Class = "fault-free"
	if faulty {
		sc.Class = "faulty"
	}
	genInbound(r, sc, faulty, genCorpusFrame(0.2))
	sc.Consumer.Hold = true
	sc.Scribble = r.Chance(0.5)
	sc.SharedCodec = r.Chance(0.2)
	sc.Strategy = genStrategy(r, horizonOf(sc))
	return sc
}

// damagedFrame draws a corpus frame and damages it in flight; stream=true keeps the framing
// (header length rewritten, xid and length bytes untouched) so that the de-framer hands the
// damaged frame to a parser goroutine.
func damagedFrame(r *simrt.RNG, kinds []string, xid uint32, stream bool) Frame {
	hint := []int{0, 64, 300, 2000, 9000}[r.Pick(35, 30, 25, 8, 2)]
	f := Frame{Kind: kinds[r.Intn(len(kinds))], Size: hint, Xid: xid, Seed: r.Uint64()}
	b, err := f.Build()
	if err != nil {
		panic("harness: corpus: " + err.Error())
	}
	marks := frameMarks(&Frame{Kind: f.Kind, Size: hint, Xid: xid, Seed: f.Seed})
	f.bytes = nil
	f.Size = hint
	k := r.Pick(70, 20, 10) + 1
	if r.Chance(0.12) {
		k = 0 // an undamaged corpus frame: unusual but well-formed input (deep nesting, maximum sizes, rare kinds)
	}
	cur := b
	for i := 0; i < k; i++ {
		var op FaultOp
		if stream {
			if r.Chance(0.06) {
				op = FaultOp{Op: "byte", Off: 1, Val: uint64(r.Intn(32)), N: 1} // another ofp_type
			} else if r.Chance(0.02) {
				op = FaultOp{Op: "byte", Off: 0, Val: uint64(r.Intn(8)), N: 1}
			} else {
				op = randomFault(r, cur, marks, 8, true)
			}
		} else {
			op = randomFault(r, cur, marks, []int{0, 8}[r.Pick(30, 70)], r.Chance(0.5))
		}
		f.Faults = append(f.Faults, op)
		cur = applyFault(cur, op)
	}
	f.Faults = append(f.Faults, drawRepairs(r, cur, marks, k)...)
	return f
}

// drawRepairs: after k damage operators, four runs in ten repair every checksum the corpus
// marked (if any), so that the damage is also seen by code behind a checksum verification.
func drawRepairs(r *simrt.RNG, cur []byte, marks []hlib.Mark, k int) []FaultOp {
	if k == 0 {
		return nil
	}
	ops := sumRepairs(marks, false)
	if len(ops) == 0 || !r.Chance(0.4) {
		return nil
	}
	if r.Chance(0.3) {
		ops = sumRepairs(marks, true)
	}
	return ops
}

func genTotality(prop string, seed uint64, kinds []string, target string, bareInput func(r *simrt.RNG) ([]byte, []hlib.Mark)) *Scenario {
	r := simrt.NewRNG(seed)
	sc := &Scenario{Property: prop, RunSeed: seed, Class: "faulty"}
	switch r.Pick(45, 40, 15) {
	case 0: // stream leg: damaged frames travel through the real de-framer into parser goroutines
		n := r.Range(1, 24)
		xid := uint32(0x100)
		for i := 0; i < n; i++ {
			if r.Chance(0.25) {
				big := 2
				sc.Frames = append(sc.Frames, genSimpleFrame(r, xid, &big))
			} else {
				sc.Frames = append(sc.Frames, damagedFrame(r, kinds, xid, true))
			}
			xid++
		}
		// once the faults stop: valid frames that must still be delivered
		k := r.Range(1, 5)
		for i := 0; i < k; i++ {
			big := 2
			sc.Frames = append(sc.Frames, genSimpleFrame(r, xid, &big))
			xid++
		}
		total := 0
		bounds := []int{0}
		for i := range sc.Frames {
			b, err := sc.Frames[i].Build()
			if err != nil {
				panic("harness: " + err.Error())
			}
			total += len(b)
			bounds = append(bounds, total)
		}
		// a fifth of the stream legs end with bytes that desynchronise the framing: a header whose
		// length field is below the header size (or anything else), followed by garbage
		if r.Chance(0.2) {
			tl := 8 + r.Intn(64)
			tb := r.Bytes(tl)
			tb[0] = 4
			tb[1] = uint8(r.Intn(30))
			ln := []int{0, 1, 2, 3, 4, 5, 6, 7, 8, 9, 12, r.Intn(65536)}[r.Intn(12)]
			tb[2], tb[3] = byte(ln>>8), byte(ln)
			sc.Tail = fmt.Sprintf("%x", tb)
			total += tl
			bounds = append(bounds, total)
		}
		sc.Chunks = genChunks(r, bounds, total)
		if r.Chance(0.3) {
			sc.Consumer.ThinkMax = []int{1, 3, 10}[r.Intn(3)]
		}
		// half of the stream legs interleave the 25 parser goroutines INSIDE the decoders (at
		// every access to package-level state): frames are decoded concurrently in production
		sc.SharedCodec = r.Chance(0.5)
	case 1: // direct leg, sampled: damaged frames with inconsistent lengths, short inputs
		sc.Target = target
		n := r.Range(8, 64)
		for i := 0; i < n; i++ {
			if bareInput != nil {
				sc.Direct = append(sc.Direct, damagedBare(r, bareInput))
			} else {
				sc.Direct = append(sc.Direct, damagedFrame(r, kinds, uint32(0x100+i), false))
			}
		}
	case 2: // direct leg, enumerated: every truncation and every marked field x every value of one frame shape
		sc.Target = target
		sc.Class = "enumerated"
		var base Frame
		var b []byte
		var marks []hlib.Mark
		if bareInput != nil {
			b, marks = bareInput(r)
			base = Frame{Kind: "bare", Hex: fmt.Sprintf("%x", b)}
		} else {
			hint := []int{0, 64, 300}[r.Pick(40, 40, 20)]
			base = Frame{Kind: kinds[r.Intn(len(kinds))], Size: hint, Xid: 0x100, Seed: r.Uint64()}
			var err error
			b, err = base.Build()
			if err != nil {
				panic("harness: corpus: " + err.Error())
			}
			marks = frameMarks(&Frame{Kind: base.Kind, Size: hint, Xid: 0x100, Seed: base.Seed})
			base.bytes = nil
			base.Size = hint
		}
		step := 1
		if len(b) > 1500 {
			step = len(b) / 1500
		}
		for off := 0; off < len(b); off += step {
			f := base
			f.Faults = []FaultOp{{Op: "trunc", Off: off}}
			sc.Direct = append(sc.Direct, f)
			if off >= 8 && bareInput == nil {
				g := base
				g.Faults = []FaultOp{{Op: "trunc", Off: off, N: 1}}
				sc.Direct = append(sc.Direct, g)
			}
		}
		repairs := sumRepairs(marks, false)
		for _, m := range marks {
			if m.Off+m.Width > len(b) || len(sc.Direct) > 3000 {
				continue
			}
			for _, v := range fieldValues(m.Width, readField(b, m), len(b), len(b)-m.Off) {
				f := base
				f.Faults = []FaultOp{writeOp(m, v, false)}
				sc.Direct = append(sc.Direct, f)
				if len(repairs) > 0 {
					// the same damage with every marked checksum repaired afterwards
					g := base
					g.Faults = append([]FaultOp{writeOp(m, v, false)}, repairs...)
					sc.Direct = append(sc.Direct, g)
				}
			}
		}
	}
	sc.Strategy = genStrategy(r, horizonOf(sc))
	return sc
}

// damagedBare damages a bare decoder input (no OpenFlow envelope).
func damagedBare(r *simrt.RNG, bareInput func(r *simrt.RNG) ([]byte, []hlib.Mark)) Frame {
	b, marks := bareInput(r)
	f := Frame{Kind: "bare", Hex: fmt.Sprintf("%x", b)}
	k := r.Pick(70, 20, 10) + 1
	cur := b
	for i := 0; i < k && len(cur) > 0; i++ {
		op := randomFault(r, cur, marks, 0, false)
		f.Faults = append(f.Faults, op)
		cur = applyFault(cur, op)
	}
	f.Faults = append(f.Faults, drawRepairs(r, cur, marks, k)...)
	return f
}

func genC07(seed uint64) *Scenario {
	return genTotality("C07", seed, hlib.WireKinds(), "parse", nil)
}

func genC08(seed uint64) *Scenario {
	r := simrt.NewRNG(seed ^ 0xc08)
	var kinds []string
	for _, p := range hlib.PacketKinds() {
		kinds = append(kinds, "pktin:"+p)
	}
	// direct legs address one decoder entry point per run; a third of them go through Parse
	// with a packet-in envelope (what the parser goroutine does)
	dk := hlib.DecoderKinds()
	if len(dk) == 0 || r.Chance(0.3) {
		return genTotality("C08", seed, kinds, "parse", nil)
	}
	target := dk[r.Intn(len(dk))]
	return genTotality("C08", seed, kinds, target, func(r *simrt.RNG) ([]byte, []hlib.Mark) {
		return hlib.DecoderInput(target, r, []int{0, 100, 600, 1500}[r.Pick(40, 30, 20, 10)])
	})
}
