package main

import (
	"encoding/binary"

	"github.com/contiv/libOpenflow/cmd/hlib"
	"github.com/contiv/libOpenflow/simrt"
)

// In-flight damage operators (DESIGN.md 4.4). Each FaultOp is explicit data in the replay
// file. N&1: rewrite the OpenFlow header length to the new size afterwards, so that the
// stream's de-framer stays in sync (the damage then reaches a parser goroutine).

func fixLen(b []byte) {
	if len(b) >= 4 && len(b) <= 65535 {
		binary.BigEndian.PutUint16(b[2:], uint16(len(b)))
	}
}

func init() {
	applyFault = func(b []byte, op FaultOp) []byte {
		b = append([]byte(nil), b...)
		off := op.Off
		switch op.Op {
		case "byte":
			if off >= 0 && off < len(b) {
				b[off] = byte(op.Val)
			}
		case "flip":
			if off >= 0 && off < len(b) {
				b[off] ^= 1 << (op.Val & 7)
			}
		case "u16":
			if off >= 0 && off+2 <= len(b) {
				binary.BigEndian.PutUint16(b[off:], uint16(op.Val))
			}
		case "u32":
			if off >= 0 && off+4 <= len(b) {
				binary.BigEndian.PutUint32(b[off:], uint32(op.Val))
			}
		case "add8":
			if off >= 0 && off < len(b) {
				b[off] += byte(op.Val)
			}
		case "add16":
			if off >= 0 && off+2 <= len(b) {
				binary.BigEndian.PutUint16(b[off:], binary.BigEndian.Uint16(b[off:])+uint16(op.Val))
			}
		case "trunc":
			if off >= 0 && off < len(b) {
				b = b[:off]
			}
		case "dup":
			n := op.N >> 1
			if n <= 0 {
				n = 8
			}
			if off >= 0 && off+n <= len(b) && len(b)+n <= 65535 {
				nb := make([]byte, 0, len(b)+n)
				nb = append(nb, b[:off+n]...)
				nb = append(nb, b[off:off+n]...)
				nb = append(nb, b[off+n:]...)
				b = nb
			}
		case "del":
			n := op.N >> 1
			if n <= 0 {
				n = 8
			}
			if off >= 0 && off+n <= len(b) {
				b = append(b[:off:off], b[off+n:]...)
			}
		case "tail":
			if off >= 0 && off < len(b) {
				r := simrt.NewRNG(op.Val)
				copy(b[off:], r.Bytes(len(b)-off))
			}
		case "pad":
			// trailing bytes up to size Val (random from seed Off; Off == 0: zeros): a frame
			// followed by garbage that its own length field, rewritten when N&1, claims
			if t := int(op.Val); t > len(b) && t <= 65535 {
				if off != 0 {
					b = append(b, simrt.NewRNG(uint64(off)).Bytes(t-len(b))...)
				} else {
					b = append(b, make([]byte, t-len(b))...)
				}
			}
		case "csum":
			// repair: the 16-bit field at Off becomes the Internet checksum of the N>>1 bytes
			// from Val (N>>1 == 0: up to the end of the frame), so that damage made before
			// this operator gets past a decoder that verifies the checksum first
			start, end := int(op.Val), int(op.Val)+op.N>>1
			if op.N>>1 == 0 || end > len(b) {
				end = len(b)
			}
			if off >= start && off+2 <= end && start >= 0 {
				b[off], b[off+1] = 0, 0
				var s uint32
				for i := start; i < end; i++ {
					if (i-start)%2 == 0 {
						s += uint32(b[i]) << 8
					} else {
						s += uint32(b[i])
					}
				}
				for s>>16 != 0 {
					s = s&0xffff + s>>16
				}
				binary.BigEndian.PutUint16(b[off:], ^uint16(s))
			}
		case "zero":
			n := op.N >> 1
			for i := off; i >= 0 && i < len(b) && i < off+n; i++ {
				b[i] = 0
			}
		case "ones":
			n := op.N >> 1
			for i := off; i >= 0 && i < len(b) && i < off+n; i++ {
				b[i] = 0xff
			}
		}
		if op.N&1 == 1 {
			fixLen(b)
		}
		return b
	}
}

// sumRepairs returns one "csum" operator per checksum the corpus marked in the frame (inner
// checksums first: an extension structure's before the message's that contains it). toEnd
// makes each cover everything up to the end of the damaged frame instead of its original
// size (what a decoder sees that takes "the rest of the packet").
func sumRepairs(marks []hlib.Mark, toEnd bool) []FaultOp {
	var ops []FaultOp
	// marks are recorded when a checksum is written, i.e. inner structures first
	for i := range marks {
		start, n, ok := hlib.SumMark(marks[i])
		if !ok || start < 0 {
			continue
		}
		if toEnd {
			n = 0
		}
		ops = append(ops, FaultOp{Op: "csum", Off: marks[i].Off, Val: uint64(start), N: n << 1})
	}
	return ops
}

// interesting replacement values for a field of the given width holding cur; total is the size of
// the enclosing frame/packet and rest the number of bytes from the field to the end.
func fieldValues(width int, cur uint64, total, rest int) []uint64 {
	max := uint64(1)<<(8*uint(width)) - 1
	vals := []uint64{0, 1, 2, 3, 4, 7, 8, 15, 16, max, max - 1, max / 2, max/2 + 1, cur + 1, cur - 1, cur + 4, cur - 4, cur + 8, cur * 2,
		uint64(rest), uint64(rest + 1), uint64(rest - 1), uint64(total), uint64(total + 1),
		// sizes of common fixed headers and their neighbours (a length field compared with the
		// wrong header size)
		5, 6, 12, 14, 19, 20, 21, 23, 24, 28, 32, 36, 39, 40, 41, 44, 48, 56, 60, 64, cur - 8, cur / 2}
	out := vals[:0]
	for _, v := range vals {
		v &= max
		dup := v == cur
		for _, o := range out {
			if o == v {
				dup = true
			}
		}
		if !dup {
			out = append(out, v)
		}
	}
	return out
}

func readField(b []byte, m hlib.Mark) uint64 {
	if m.Off < 0 || m.Off+m.Width > len(b) {
		return 0
	}
	switch m.Width {
	case 1:
		return uint64(b[m.Off])
	case 2:
		return uint64(binary.BigEndian.Uint16(b[m.Off:]))
	case 4:
		return uint64(binary.BigEndian.Uint32(b[m.Off:]))
	}
	return 0
}

func writeOp(m hlib.Mark, v uint64, keepFraming bool) FaultOp {
	n := 0
	if keepFraming {
		n = 1
	}
	switch m.Width {
	case 1:
		return FaultOp{Op: "byte", Off: m.Off, Val: v, N: n}
	case 2:
		return FaultOp{Op: "u16", Off: m.Off, Val: v, N: n}
	}
	return FaultOp{Op: "u32", Off: m.Off, Val: v, N: n}
}

// randomFault draws one damage operator for frame bytes b with field marks; lo is the first
// byte that may be damaged (8 = keep the OpenFlow header, so the frame still reaches the
// decoder of its type; 0 = anything goes). keepFraming makes size-changing operators rewrite
// the header length.
func randomFault(r *simrt.RNG, b []byte, marks []hlib.Mark, lo int, keepFraming bool) FaultOp {
	n := 0
	if keepFraming {
		n = 1
	}
	if lo >= len(b) {
		return FaultOp{Op: "nop"} // nothing beyond the protected prefix to damage
	}
	span := len(b) - lo
	var cand []hlib.Mark
	for _, m := range marks {
		if m.Off >= lo && m.Off+m.Width <= len(b) {
			cand = append(cand, m)
		}
	}
	k := r.Pick(36, 13, 9, 9, 6, 6, 6, 4, 3, 3, 5)
	if len(cand) == 0 && k == 0 {
		k = 1
	}
	switch k {
	case 10: // grown: the frame is followed by extra bytes, up to the largest frame there is
		sizes := []int{len(b) + 1, len(b) + 8, 2048, 2049, 65535, 65535}
		t := sizes[r.Intn(len(sizes))]
		if t <= len(b) {
			t = 65535
		}
		seed := 0
		if r.Chance(0.5) {
			seed = 1 + r.Intn(1<<30)
		}
		fix := r.Intn(2)
		if keepFraming {
			fix = 1
		}
		return FaultOp{Op: "pad", Off: seed, Val: uint64(t), N: fix}
	case 0: // a length/count/type field set to an interesting value
		m := cand[r.Intn(len(cand))]
		vals := fieldValues(m.Width, readField(b, m), len(b), len(b)-m.Off)
		return writeOp(m, vals[r.Intn(len(vals))], keepFraming)
	case 1: // truncate
		off := lo + r.Intn(span)
		if r.Chance(0.5) && len(cand) > 0 {
			m := cand[r.Intn(len(cand))]
			off = m.Off + r.Intn(m.Width+1)
		}
		if off < 8 && keepFraming {
			off = 8
		}
		return FaultOp{Op: "trunc", Off: off, N: n}
	case 2:
		return FaultOp{Op: "byte", Off: lo + r.Intn(span), Val: []uint64{0, 1, 0x7f, 0x80, 0xff, uint64(r.Intn(256))}[r.Intn(6)], N: n}
	case 3:
		return FaultOp{Op: "flip", Off: lo + r.Intn(span), Val: uint64(r.Intn(8)), N: n}
	case 4:
		off := lo + 2*r.Intn(span/2+1)
		return FaultOp{Op: "u16", Off: off, Val: []uint64{0, 1, 4, 7, 8, 0xffff, uint64(len(b) - off), uint64(len(b) - off + 1)}[r.Intn(8)], N: n}
	case 5:
		return FaultOp{Op: []string{"add8", "add16"}[r.Intn(2)], Off: lo + r.Intn(span), Val: []uint64{1, 0xffff, 4, 0xfffc, 8}[r.Intn(5)], N: n}
	case 6:
		return FaultOp{Op: "dup", Off: lo + 4*r.Intn(span/4+1), N: n | (r.Pick(1, 1, 1)*4+4)<<1}
	case 7:
		return FaultOp{Op: "del", Off: lo + 4*r.Intn(span/4+1), N: n | (r.Pick(1, 1, 1)*4+4)<<1}
	case 8:
		return FaultOp{Op: "tail", Off: lo + r.Intn(span), Val: r.Uint64(), N: n}
	}
	return FaultOp{Op: []string{"zero", "ones"}[r.Intn(2)], Off: lo + r.Intn(span), N: n | (1+r.Intn(8))<<1}
}
