package hlib

// corpus_packet.go: independent generator of well-formed network packets (Ethernet II,
// 802.1Q, ARP, IPv4 + options, IPv6 + extension headers, ICMP/ICMPv6, UDP, TCP, IGMPv1/2/3,
// DHCP, LLDP), single-decoder inputs, and the stub controller application AppDemux.
//
// Nothing in the generator calls an encoder or constructor of package protocol: every byte
// is written with W according to the RFCs. All randomness comes from the *simrt.RNG that is
// passed in; no maps are ranged over, no time, no globals are mutated after init.

import (
	"github.com/contiv/libOpenflow/openflow13"
	"github.com/contiv/libOpenflow/protocol"
	"github.com/contiv/libOpenflow/simrt"
	"github.com/contiv/libOpenflow/util"
)

// ---------------------------------------------------------------------------------------
// generator context
// ---------------------------------------------------------------------------------------

type pktGen struct {
	w    *W
	r    *simrt.RNG
	size int // soft target for the total number of bytes in w (0 = small)
}

const pktMaxFrame = 9018 // jumbo frame incl. Ethernet header

func newPktGen(r *simrt.RNG, sizeHint int) *pktGen {
	if sizeHint < 0 {
		sizeHint = 0
	}
	if sizeHint > pktMaxFrame {
		sizeHint = pktMaxFrame
	}
	return &pktGen{w: &W{}, r: r, size: sizeHint}
}

// room says how many payload bytes to append now so that the buffer ends up close to the
// size hint; the result is clamped to [min,max]. reserve = bytes that will still follow.
func (g *pktGen) room(min, max, reserve int) int {
	if max < min {
		max = min
	}
	var n int
	if g.size <= 0 {
		n = min + g.r.Intn(40)
	} else {
		n = g.size - g.w.Len() - reserve
		if g.r.Chance(0.12) && n > min {
			n = g.r.Range(min, n)
		}
	}
	if n < min {
		n = min
	}
	if n > max {
		n = max
	}
	return n
}

func (g *pktGen) u16() uint16 { return uint16(g.r.Uint64()) }
func (g *pktGen) u32() uint32 { return uint32(g.r.Uint64()) }

// nz16 is a random non-zero 16 bit value (used for transport checksums, which the decoders
// do not verify; zero would mean "no checksum" for UDP, which is illegal over IPv6).
func (g *pktGen) nz16() uint16 {
	v := g.u16()
	if v == 0 {
		v = 0xbeef
	}
	return v
}

func pktChecksum(b []byte) uint16 {
	var s uint32
	for i := 0; i+1 < len(b); i += 2 {
		s += uint32(b[i])<<8 | uint32(b[i+1])
	}
	if len(b)%2 == 1 {
		s += uint32(b[len(b)-1]) << 8
	}
	for s>>16 != 0 {
		s = s&0xffff + s>>16
	}
	return ^uint16(s)
}

// ---------------------------------------------------------------------------------------
// kinds
// ---------------------------------------------------------------------------------------

type pktKindDef struct {
	name   string
	weight int
	etype  uint16 // ethertype of the L3 part (0 = the builder writes the whole frame itself)
	vlan   bool
	subset bool // inside the subset the library claims to understand (used for decoder inputs)
	l3     func(g *pktGen)
}

var pktKindTable []pktKindDef
var pktKindIndex map[string]int // lookup only, never ranged over
var pktKindWeights []int

func pktAdd(name string, weight int, etype uint16, vlan, subset bool, l3 func(g *pktGen)) {
	pktKindTable = append(pktKindTable, pktKindDef{name, weight, etype, vlan, subset, l3})
}

const (
	pkEthIPv4 = 0x0800
	pkEthARP  = 0x0806
	pkEthRARP = 0x8035
	pkEthVLAN = 0x8100
	pkEthQinQ = 0x88a8
	pkEthIPv6 = 0x86dd
	pkEthLLDP = 0x88cc
)

const (
	pkProtoHBH     = 0
	pkProtoICMP    = 1
	pkProtoIGMP    = 2
	pkProtoIPIP    = 4
	pkProtoTCP     = 6
	pkProtoUDP     = 17
	pkProtoIPv6    = 41
	pkProtoRouting = 43
	pkProtoFrag    = 44
	pkProtoGRE     = 47
	pkProtoESP     = 50
	pkProtoAH      = 51
	pkProtoICMPv6  = 58
	pkProtoNoNext  = 59
	pkProtoDstOpts = 60
	pkProtoOSPF    = 89
	pkProtoSCTP    = 132
)

func init() {
	// --- plain Ethernet
	pktAdd("eth_other", 3, 0, false, true, func(g *pktGen) { g.ethOther() })
	pktAdd("eth_8023_llc", 1, 0, false, true, func(g *pktGen) { g.eth8023() })
	// --- ARP
	pktAdd("arp", 4, pkEthARP, false, true, func(g *pktGen) { g.arp(false, false) })
	pktAdd("arp_ethpad", 2, pkEthARP, false, true, func(g *pktGen) { g.arp(false, false); g.ethPad() })
	pktAdd("vlan_arp", 2, pkEthARP, true, true, func(g *pktGen) { g.arp(false, false) })
	pktAdd("rarp", 1, pkEthRARP, false, true, func(g *pktGen) { g.arp(true, false) })
	pktAdd("arp_hlen8_unsupported", 1, pkEthARP, false, false, func(g *pktGen) { g.arp(false, true) })
	// --- IPv4
	pktAdd("ipv4_icmp", 4, pkEthIPv4, false, true, func(g *pktGen) { g.ipv4(pkProtoICMP, 0, pkFragNone) })
	pktAdd("ipv4_udp", 4, pkEthIPv4, false, true, func(g *pktGen) { g.ipv4(pkProtoUDP, 0, pkFragNone) })
	pktAdd("ipv4_udp_dhcp", 4, pkEthIPv4, false, true, func(g *pktGen) { g.ipv4(pkL4DHCP, 0, pkFragNone) })
	pktAdd("ipv4_tcp", 4, pkEthIPv4, false, true, func(g *pktGen) { g.ipv4(pkProtoTCP, 0, pkFragNone) })
	pktAdd("ipv4_igmp_v1", 2, pkEthIPv4, false, true, func(g *pktGen) { g.ipv4(pkL4IGMPv1, -1, pkFragNone) })
	pktAdd("ipv4_igmp_v2", 3, pkEthIPv4, false, true, func(g *pktGen) { g.ipv4(pkL4IGMPv2, -1, pkFragNone) })
	pktAdd("ipv4_igmpv3_query", 3, pkEthIPv4, false, true, func(g *pktGen) { g.ipv4(pkL4IGMPv3Q, -1, pkFragNone) })
	pktAdd("ipv4_igmpv3_report", 3, pkEthIPv4, false, true, func(g *pktGen) { g.ipv4(pkL4IGMPv3R, -1, pkFragNone) })
	pktAdd("ipv4_opts_icmp", 2, pkEthIPv4, false, true, func(g *pktGen) { g.ipv4(pkProtoICMP, g.r.Range(1, 10), pkFragNone) })
	pktAdd("ipv4_opts_udp", 2, pkEthIPv4, false, true, func(g *pktGen) { g.ipv4(pkProtoUDP, g.r.Range(1, 10), pkFragNone) })
	pktAdd("ipv4_opts_tcp", 2, pkEthIPv4, false, true, func(g *pktGen) { g.ipv4(pkProtoTCP, g.r.Range(1, 10), pkFragNone) })
	pktAdd("ipv4_opts_max_udp", 1, pkEthIPv4, false, true, func(g *pktGen) { g.ipv4(pkProtoUDP, 10, pkFragNone) })
	pktAdd("ipv4_other_proto", 2, pkEthIPv4, false, true, func(g *pktGen) { g.ipv4(pkL4Other, 0, pkFragNone) })
	pktAdd("ipv4_ip6in4", 1, pkEthIPv4, false, true, func(g *pktGen) { g.ipv4(pkProtoIPv6, 0, pkFragNone) })
	pktAdd("ipv4_ipip", 1, pkEthIPv4, false, true, func(g *pktGen) { g.ipv4(pkProtoIPIP, 0, pkFragNone) })
	pktAdd("ipv4_frag_first_udp", 2, pkEthIPv4, false, true, func(g *pktGen) { g.ipv4(pkProtoUDP, 0, pkFragFirst) })
	pktAdd("ipv4_frag_first_tcp", 1, pkEthIPv4, false, true, func(g *pktGen) { g.ipv4(pkProtoTCP, 0, pkFragFirst) })
	pktAdd("ipv4_frag_later", 2, pkEthIPv4, false, false, func(g *pktGen) { g.ipv4(pkL4FragData, 0, pkFragLater) })
	pktAdd("ipv4_udp_ethpad", 2, pkEthIPv4, false, true, func(g *pktGen) { g.size = 0; g.ipv4(pkL4TinyUDP, 0, pkFragNone); g.ethPad() })
	pktAdd("ipv4_tcp_ethpad", 1, pkEthIPv4, false, true, func(g *pktGen) { g.size = 0; g.ipv4(pkL4TinyTCP, 0, pkFragNone); g.ethPad() })
	pktAdd("ipv4_igmp_v2_ethpad", 2, pkEthIPv4, false, true, func(g *pktGen) { g.ipv4(pkL4IGMPv2, -1, pkFragNone); g.ethPad() })
	pktAdd("ipv4_igmpv3_report_ethpad", 1, pkEthIPv4, false, true, func(g *pktGen) { g.ipv4(pkL4IGMPv3RSmall, -1, pkFragNone); g.ethPad() })
	pktAdd("vlan_ipv4_icmp", 1, pkEthIPv4, true, true, func(g *pktGen) { g.ipv4(pkProtoICMP, 0, pkFragNone) })
	pktAdd("vlan_ipv4_udp", 2, pkEthIPv4, true, true, func(g *pktGen) { g.ipv4(pkProtoUDP, 0, pkFragNone) })
	pktAdd("vlan_ipv4_udp_dhcp", 2, pkEthIPv4, true, true, func(g *pktGen) { g.ipv4(pkL4DHCP, 0, pkFragNone) })
	pktAdd("vlan_ipv4_tcp", 2, pkEthIPv4, true, true, func(g *pktGen) { g.ipv4(pkProtoTCP, 0, pkFragNone) })
	pktAdd("vlan_ipv4_igmp_v2", 1, pkEthIPv4, true, true, func(g *pktGen) { g.ipv4(pkL4IGMPv2, -1, pkFragNone) })
	pktAdd("vlan_ipv4_igmpv3_report", 1, pkEthIPv4, true, true, func(g *pktGen) { g.ipv4(pkL4IGMPv3R, -1, pkFragNone) })
	pktAdd("vlan_ipv4_opts_tcp", 1, pkEthIPv4, true, true, func(g *pktGen) { g.ipv4(pkProtoTCP, g.r.Range(1, 10), pkFragNone) })
	// --- IPv6
	pktAdd("ipv6_icmp", 4, pkEthIPv6, false, true, func(g *pktGen) { g.ipv6(nil, pkProtoICMPv6) })
	pktAdd("ipv6_udp", 4, pkEthIPv6, false, true, func(g *pktGen) { g.ipv6(nil, pkProtoUDP) })
	pktAdd("ipv6_tcp", 4, pkEthIPv6, false, true, func(g *pktGen) { g.ipv6(nil, pkProtoTCP) })
	pktAdd("ipv6_other_proto", 2, pkEthIPv6, false, true, func(g *pktGen) { g.ipv6(nil, pkL4Other) })
	pktAdd("ipv6_hbh_padn_udp", 2, pkEthIPv6, false, true, func(g *pktGen) { g.ipv6([]int{pkExtHBH}, pkProtoUDP) })
	pktAdd("ipv6_hbh_padn_tcp", 1, pkEthIPv6, false, true, func(g *pktGen) { g.ipv6([]int{pkExtHBH}, pkProtoTCP) })
	pktAdd("ipv6_hbh_ra_mld", 2, pkEthIPv6, false, true, func(g *pktGen) { g.ipv6([]int{pkExtHBHRouterAlert}, pkL4MLD) })
	pktAdd("ipv6_hbh_pad1_unsupported", 2, pkEthIPv6, false, false, func(g *pktGen) { g.ipv6([]int{pkExtHBHPad1}, pkProtoUDP) })
	pktAdd("ipv6_hbh_longopt_unsupported", 1, pkEthIPv6, false, false, func(g *pktGen) { g.ipv6([]int{pkExtHBHLongOpt}, pkProtoUDP) })
	pktAdd("ipv6_hbh_hel255_unsupported", 1, pkEthIPv6, false, false, func(g *pktGen) { g.ipv6([]int{pkExtHBH255}, pkProtoUDP) })
	pktAdd("ipv6_routing_udp", 2, pkEthIPv6, false, true, func(g *pktGen) { g.ipv6([]int{pkExtRouting}, pkProtoUDP) })
	pktAdd("ipv6_routing_tcp", 1, pkEthIPv6, false, true, func(g *pktGen) { g.ipv6([]int{pkExtRouting}, pkProtoTCP) })
	pktAdd("ipv6_routing_icmp", 1, pkEthIPv6, false, true, func(g *pktGen) { g.ipv6([]int{pkExtRouting}, pkProtoICMPv6) })
	pktAdd("ipv6_routing_hel255_unsupported", 1, pkEthIPv6, false, false, func(g *pktGen) { g.ipv6([]int{pkExtRouting255}, pkProtoUDP) })
	pktAdd("ipv6_frag_first_udp", 2, pkEthIPv6, false, true, func(g *pktGen) { g.ipv6([]int{pkExtFragFirst}, pkProtoUDP) })
	pktAdd("ipv6_frag_first_tcp", 1, pkEthIPv6, false, true, func(g *pktGen) { g.ipv6([]int{pkExtFragFirst}, pkProtoTCP) })
	pktAdd("ipv6_frag_atomic_icmp", 1, pkEthIPv6, false, true, func(g *pktGen) { g.ipv6([]int{pkExtFragAtomic}, pkProtoICMPv6) })
	pktAdd("ipv6_frag_later", 2, pkEthIPv6, false, false, func(g *pktGen) { g.ipv6([]int{pkExtFragLater}, pkL4FragData) })
	pktAdd("ipv6_chain", 3, pkEthIPv6, false, true, func(g *pktGen) {
		g.ipv6([]int{pkExtHBH, pkExtRouting, pkExtFragFirst}, []int{pkProtoUDP, pkProtoTCP, pkProtoICMPv6}[g.r.Intn(3)])
	})
	pktAdd("ipv6_dstopts_unsupported", 2, pkEthIPv6, false, false, func(g *pktGen) {
		g.ipv6([]int{pkExtDstOpts}, []int{pkProtoUDP, pkProtoTCP, pkProtoICMPv6}[g.r.Intn(3)])
	})
	pktAdd("ipv6_ah_unsupported", 1, pkEthIPv6, false, false, func(g *pktGen) {
		g.ipv6([]int{pkExtAH}, []int{pkProtoUDP, pkProtoTCP}[g.r.Intn(2)])
	})
	pktAdd("ipv6_chain_dstopts_unsupported", 1, pkEthIPv6, false, false, func(g *pktGen) {
		g.ipv6([]int{pkExtHBH, pkExtDstOpts, pkExtRouting, pkExtFragFirst, pkExtDstOpts}, []int{pkProtoUDP, pkProtoTCP}[g.r.Intn(2)])
	})
	pktAdd("vlan_ipv6_icmp", 1, pkEthIPv6, true, true, func(g *pktGen) { g.ipv6(nil, pkProtoICMPv6) })
	pktAdd("vlan_ipv6_udp", 1, pkEthIPv6, true, true, func(g *pktGen) { g.ipv6(nil, pkProtoUDP) })
	pktAdd("vlan_ipv6_tcp", 2, pkEthIPv6, true, true, func(g *pktGen) { g.ipv6(nil, pkProtoTCP) })
	pktAdd("vlan_ipv6_chain", 1, pkEthIPv6, true, true, func(g *pktGen) {
		g.ipv6([]int{pkExtHBH, pkExtRouting, pkExtFragFirst}, []int{pkProtoUDP, pkProtoTCP}[g.r.Intn(2)])
	})
	// --- LLDP
	pktAdd("lldp", 4, pkEthLLDP, false, true, func(g *pktGen) { g.lldp(false, nil) })
	pktAdd("lldp_opt_tlvs", 2, pkEthLLDP, false, true, func(g *pktGen) { g.lldp(true, nil) })
	pktAdd("vlan_lldp", 1, pkEthLLDP, true, true, func(g *pktGen) { g.lldp(false, nil) })
	// --- stacked tags the library does not look into
	pktAdd("qinq_unsupported", 1, 0, false, false, func(g *pktGen) { g.qinq() })

	pktKindIndex = make(map[string]int, len(pktKindTable))
	for i, k := range pktKindTable {
		pktKindIndex[k.name] = i
		pktKindWeights = append(pktKindWeights, k.weight)
	}
	PacketSource = func(r *simrt.RNG, sizeHint int) ([]byte, []Mark) {
		k := pktKindTable[r.Pick(pktKindWeights...)]
		return Packet(k.name, r, sizeHint)
	}
}

// PacketKinds lists the packet shapes in a fixed order.
func PacketKinds() []string {
	out := make([]string, len(pktKindTable))
	for i, k := range pktKindTable {
		out[i] = k.name
	}
	return out
}

// Packet builds one valid Ethernet frame of the given shape.
func Packet(kind string, r *simrt.RNG, sizeHint int) (b []byte, marks []Mark) {
	i, ok := pktKindIndex[kind]
	if !ok {
		panic("hlib.Packet: unknown kind " + kind)
	}
	k := pktKindTable[i]
	g := newPktGen(r, sizeHint)
	if k.etype != 0 {
		g.ethHeader(k.etype, k.vlan)
	}
	k.l3(g)
	return g.w.B, g.w.Marks
}

// ---------------------------------------------------------------------------------------
// Ethernet, 802.1Q
// ---------------------------------------------------------------------------------------

func (g *pktGen) mac(unicast bool) []byte {
	m := g.r.Bytes(6)
	if unicast {
		m[0] &^= 1
	}
	return m
}

func (g *pktGen) dstMAC() []byte {
	switch g.r.Pick(6, 2, 2) {
	case 1:
		return []byte{0xff, 0xff, 0xff, 0xff, 0xff, 0xff}
	case 2:
		m := g.r.Bytes(6)
		m[0] |= 1
		return m
	}
	return g.mac(true)
}

func (g *pktGen) vlanTag(tpid uint16) {
	g.w.MU16(tpid, "vlan.tpid")
	vid := g.r.Range(1, 4094)
	if g.r.Chance(0.04) {
		vid = 0 // priority tag
	}
	tci := uint16(g.r.Intn(8))<<13 | uint16(g.r.Intn(2))<<12 | uint16(vid)
	g.w.U16(tci)
}

func (g *pktGen) ethHeader(etype uint16, vlan bool) {
	if etype == pkEthLLDP {
		g.w.Bytes([]byte{0x01, 0x80, 0xc2, 0x00, 0x00, []byte{0x0e, 0x03, 0x00}[g.r.Pick(6, 1, 1)]})
	} else {
		g.w.Bytes(g.dstMAC())
	}
	g.w.Bytes(g.mac(true))
	if vlan {
		g.vlanTag(pkEthVLAN)
		g.w.MU16(etype, "vlan.type")
	} else {
		g.w.MU16(etype, "eth.type")
	}
}

// ethPad appends the Ethernet trailer padding that brings a short frame to the 60 byte
// minimum (what a switch really delivers in a packet-in for e.g. ARP or IGMP).
func (g *pktGen) ethPad() {
	if n := 60 - g.w.Len(); n > 0 {
		g.w.Zero(n)
	}
}

func (g *pktGen) ethOther() {
	types := []uint16{0x88b5, 0x88b6, 0x0842, 0x8847, 0x8863, 0x8864, 0x888e, 0x88f7, 0x8902, 0x22f3}
	g.ethHeader(types[g.r.Intn(len(types))], g.r.Chance(0.2))
	g.w.Bytes(g.r.Bytes(g.room(46, 9000, 0)))
}

// eth8023 is an IEEE 802.3 frame: the type field is a length (<= 1500) followed by LLC.
func (g *pktGen) eth8023() {
	g.w.Bytes([]byte{0x01, 0x80, 0xc2, 0x00, 0x00, 0x00})
	g.w.Bytes(g.mac(true))
	off := g.w.Len()
	g.w.MU16(0, "eth.type")
	start := g.w.Len()
	g.w.Bytes([]byte{0x42, 0x42, 0x03}) // LLC: STP
	g.w.Bytes(g.r.Bytes(g.room(35, 1497, 0)))
	g.w.Put16(off, uint16(g.w.Len()-start))
	g.ethPad()
}

// qinq: 802.1ad service tag + 802.1Q customer tag (or legacy double 0x8100) around IPv4/UDP.
func (g *pktGen) qinq() {
	g.w.Bytes(g.dstMAC())
	g.w.Bytes(g.mac(true))
	if g.r.Chance(0.7) {
		g.vlanTag(pkEthQinQ)
	} else {
		g.vlanTag(pkEthVLAN)
	}
	g.vlanTag(pkEthVLAN)
	g.w.MU16(pkEthIPv4, "vlan.type")
	g.ipv4(pkProtoUDP, 0, pkFragNone)
}

// ---------------------------------------------------------------------------------------
// ARP (RFC 826) / RARP (RFC 903)
// ---------------------------------------------------------------------------------------

func (g *pktGen) arp(rarp, longHW bool) {
	htype, hlen := uint16(1), 6
	if longHW {
		htype, hlen = 27, 8 // EUI-64 hardware addresses
	} else if g.r.Chance(0.1) {
		htype = 6 // IEEE 802
	}
	op := uint16(g.r.Range(1, 2))
	if rarp {
		op = uint16(g.r.Range(3, 4))
	}
	g.w.MU16(htype, "arp.htype")
	g.w.MU16(pkEthIPv4, "arp.ptype")
	g.w.MU8(uint8(hlen), "arp.hlen")
	g.w.MU8(4, "arp.plen")
	g.w.MU16(op, "arp.op")
	g.w.Bytes(g.r.Bytes(hlen)) // sha
	g.w.Bytes(g.r.Bytes(4))    // spa
	if op == 1 && g.r.Chance(0.7) {
		g.w.Zero(hlen) // tha unknown in a request
	} else {
		g.w.Bytes(g.r.Bytes(hlen))
	}
	g.w.Bytes(g.r.Bytes(4)) // tpa
}

// ---------------------------------------------------------------------------------------
// IPv4 (RFC 791)
// ---------------------------------------------------------------------------------------

// upper-layer selectors that are not plain protocol numbers
const (
	pkL4DHCP = 1000 + iota
	pkL4IGMPv1
	pkL4IGMPv2
	pkL4IGMPv3Q
	pkL4IGMPv3R
	pkL4IGMPv3RSmall
	pkL4Other
	pkL4FragData
	pkL4TinyUDP
	pkL4TinyTCP
	pkL4MLD
)

const (
	pkFragNone = iota
	pkFragFirst
	pkFragLater
)

// fragment state shared between the IP layer and the upper-layer writers
type pktFrag struct {
	alignFrom int  // >= 0: the upper-layer bytes written after this offset must be a multiple of 8
	extra     int  // bytes of the datagram carried by later fragments (added to udp.len)
	last      bool // later fragment: this is the last one (any length >= 1)
}

var pktNoFrag = pktFrag{alignFrom: -1}

// l4proto resolves a selector to the IP protocol number (may draw randomness).
func (g *pktGen) l4proto(sel int, v6 bool) uint8 {
	switch sel {
	case pkL4DHCP, pkL4TinyUDP:
		return pkProtoUDP
	case pkL4TinyTCP:
		return pkProtoTCP
	case pkL4IGMPv1, pkL4IGMPv2, pkL4IGMPv3Q, pkL4IGMPv3R, pkL4IGMPv3RSmall:
		return pkProtoIGMP
	case pkL4MLD:
		return pkProtoICMPv6
	case pkL4Other:
		return []uint8{pkProtoGRE, pkProtoESP, pkProtoOSPF, pkProtoSCTP, pkProtoNoNext, 103, 112, 115}[g.r.Intn(8)]
	case pkL4FragData:
		icmp := uint8(pkProtoICMP)
		if v6 {
			icmp = pkProtoICMPv6
		}
		return []uint8{pkProtoUDP, pkProtoUDP, pkProtoTCP, icmp, pkProtoESP}[g.r.Intn(5)]
	}
	return uint8(sel)
}

// l4body writes the upper-layer bytes for selector sel (proto = what l4proto returned).
func (g *pktGen) l4body(sel int, proto uint8, v6 bool, f pktFrag) {
	switch sel {
	case pkL4DHCP:
		g.udpDHCP()
	case pkL4TinyUDP:
		g.udp(g.port(), g.port(), f, func() { g.w.Bytes(g.r.Bytes(g.r.Range(0, 10))) })
	case pkL4TinyTCP:
		g.tcp(f, 5, g.r.Range(0, 4))
	case pkL4IGMPv1:
		g.igmpV1V2(true)
	case pkL4IGMPv2:
		g.igmpV1V2(false)
	case pkL4IGMPv3Q:
		g.igmpV3Query(g.r.Range(0, 10))
	case pkL4IGMPv3R:
		g.igmpV3Report(g.r.Range(0, 5), 4)
	case pkL4IGMPv3RSmall:
		g.igmpV3Report(g.r.Range(0, 1), 0)
	case pkL4MLD:
		g.icmp6(true, f)
	case pkL4Other:
		if proto == pkProtoNoNext {
			return
		}
		g.payload(8, 9000, f)
	case pkL4FragData:
		if f.last {
			g.w.Bytes(g.r.Bytes(g.room(1, 9000, 0)))
		} else {
			n := g.room(8, 8992, 0)
			g.w.Bytes(g.r.Bytes(n &^ 7))
		}
	case pkProtoICMP:
		g.icmp4(f)
	case pkProtoICMPv6:
		g.icmp6(false, f)
	case pkProtoUDP:
		g.udp(g.port(), g.port(), f, func() { g.payload(0, 9000, f) })
	case pkProtoTCP:
		g.tcp(f, g.r.Range(5, 15), -1)
	case pkProtoIPv6:
		inner := newPktGen(g.r, g.size-g.w.Len())
		inner.ipv6(nil, []int{pkProtoUDP, pkProtoTCP, pkProtoICMPv6}[g.r.Intn(3)])
		g.w.Append(inner.w)
	case pkProtoIPIP:
		inner := newPktGen(g.r, g.size-g.w.Len())
		inner.ipv4([]int{pkProtoUDP, pkProtoTCP, pkProtoICMP}[g.r.Intn(3)], 0, pkFragNone)
		g.w.Append(inner.w)
	default:
		g.payload(0, 9000, f)
	}
}

// payload appends random data bytes, sized from the size hint; inside a first fragment the
// length is adjusted so that the fragment's payload is a multiple of 8.
func (g *pktGen) payload(min, max int, f pktFrag) {
	n := g.room(min, max, 0)
	if f.alignFrom >= 0 {
		for (g.w.Len()+n-f.alignFrom)%8 != 0 {
			n++
		}
	}
	g.w.Bytes(g.r.Bytes(n))
}

func (g *pktGen) ip4addr(multicast bool) []byte {
	a := g.r.Bytes(4)
	if multicast {
		a[0] = 224 + byte(g.r.Intn(16))
	} else {
		a[0] = byte(g.r.Range(1, 223))
	}
	return a
}

// ipv4 writes one IPv4 packet. optWords: number of 32-bit option words (0..10);
// -1 = IGMP style (router alert option most of the time).
func (g *pktGen) ipv4(sel int, optWords int, fragMode int) {
	w := g.w
	proto := g.l4proto(sel, false)
	opts := &W{}
	if optWords < 0 {
		if g.r.Chance(0.6) {
			opts.MU8(148, "ipv4.opt.type") // router alert, RFC 2113
			opts.MU8(4, "ipv4.opt.len")
			opts.U16(0)
		}
	} else if optWords > 0 {
		g.ipv4Options(opts, optWords*4)
	}
	ihl := 5 + opts.Len()/4
	start := w.Len()
	w.MU8(uint8(0x40|ihl), "ipv4.ver_ihl")
	w.U8(uint8(g.r.Intn(64))<<2 | uint8(g.r.Intn(3)))
	lenOff := w.Len()
	w.MU16(0, "ipv4.total_len")
	w.U16(g.u16()) // identification
	f := pktNoFrag
	var ff uint16
	switch fragMode {
	case pkFragNone:
		if g.r.Chance(0.5) {
			ff = 0x4000 // DF
		}
	case pkFragFirst:
		ff = 0x2000 // MF, offset 0
		f.extra = 8 * g.r.Range(1, 180)
	case pkFragLater:
		f.last = g.r.Chance(0.5)
		ff = uint16(g.r.Range(1, 1000))
		if !f.last {
			ff |= 0x2000
		}
	}
	w.MU16(ff, "ipv4.frag")
	ttl := uint8(g.r.Range(1, 255))
	if proto == pkProtoIGMP {
		ttl = 1
	}
	w.U8(ttl)
	w.MU8(proto, "ipv4.proto")
	csumOff := w.Len()
	w.U16(0)
	w.Bytes(g.ip4addr(false))
	w.Bytes(g.ip4addr(proto == pkProtoIGMP || g.r.Chance(0.1)))
	w.Append(opts)
	hdrEnd := w.Len()
	if fragMode == pkFragFirst {
		f.alignFrom = hdrEnd
	}
	g.l4body(sel, proto, false, f)
	w.Put16(lenOff, uint16(w.Len()-start))
	w.Put16(csumOff, pktChecksum(w.B[start:hdrEnd]))
	w.MarkSum(csumOff, start, hdrEnd-start)
}

// ipv4Options fills exactly n bytes (multiple of 4, <= 40) with well-formed options.
func (g *pktGen) ipv4Options(o *W, n int) {
	rem := n
	for rem > 0 {
		c := g.r.Pick(3, 3, 3, 2, 2, 1)
		switch {
		case c == 0 && rem >= 1: // NOP
			o.MU8(1, "ipv4.opt.type")
			rem--
		case c == 1 && rem >= 7: // record route: 3 + 4k
			k := g.r.Range(1, (rem-3)/4)
			o.MU8(7, "ipv4.opt.type")
			o.MU8(uint8(3+4*k), "ipv4.opt.len")
			o.U8(uint8(4 + 4*g.r.Intn(k+1))) // pointer
			o.Bytes(g.r.Bytes(4 * k))
			rem -= 3 + 4*k
		case c == 2 && rem >= 8: // timestamp: 4 + 4k, flag 0
			k := g.r.Range(1, (rem-4)/4)
			o.MU8(68, "ipv4.opt.type")
			o.MU8(uint8(4+4*k), "ipv4.opt.len")
			o.U8(uint8(5 + 4*g.r.Intn(k+1)))
			o.U8(uint8(g.r.Intn(16)) << 4)
			o.Bytes(g.r.Bytes(4 * k))
			rem -= 4 + 4*k
		case c == 3 && rem >= 4: // router alert
			o.MU8(148, "ipv4.opt.type")
			o.MU8(4, "ipv4.opt.len")
			o.U16(0)
			rem -= 4
		case c == 4 && rem >= 7: // loose / strict source route
			k := g.r.Range(1, (rem-3)/4)
			o.MU8([]uint8{131, 137}[g.r.Intn(2)], "ipv4.opt.type")
			o.MU8(uint8(3+4*k), "ipv4.opt.len")
			o.U8(uint8(4 + 4*g.r.Intn(k+1)))
			o.Bytes(g.r.Bytes(4 * k))
			rem -= 3 + 4*k
		case c == 5: // end of option list, rest is padding
			o.MU8(0, "ipv4.opt.type")
			o.Zero(rem - 1)
			rem = 0
		}
	}
}

// ---------------------------------------------------------------------------------------
// UDP (RFC 768), TCP (RFC 793 + option RFCs)
// ---------------------------------------------------------------------------------------

// port avoids the BOOTP/DHCP ports so that only the DHCP kinds look like DHCP.
func (g *pktGen) port() int {
	well := []int{53, 123, 161, 500, 514, 1900, 4789, 5353, 6081, 80, 443, 22, 179, 6653}
	if g.r.Chance(0.4) {
		return well[g.r.Intn(len(well))]
	}
	return g.r.Range(1024, 65535)
}

func (g *pktGen) udp(sport, dport int, f pktFrag, body func()) {
	w := g.w
	start := w.Len()
	w.MU16(uint16(sport), "udp.sport")
	w.MU16(uint16(dport), "udp.dport")
	lenOff := w.Len()
	w.MU16(0, "udp.len")
	w.U16(g.nz16())
	body()
	w.Put16(lenOff, uint16(w.Len()-start+f.extra))
}

// tcp writes a TCP segment with data offset doff (5..15); ndata < 0 = size from the hint.
func (g *pktGen) tcp(f pktFrag, doff int, ndata int) {
	w := g.w
	w.MU16(uint16(g.port()), "tcp.sport")
	w.MU16(uint16(g.port()), "tcp.dport")
	w.U32(g.u32())
	w.U32(g.u32())
	w.MU8(uint8(doff<<4), "tcp.off")
	flags := []uint8{0x02, 0x12, 0x10, 0x18, 0x11, 0x04, 0x14, 0x19}[g.r.Intn(8)]
	w.U8(flags)
	w.U16(g.u16())
	w.U16(g.nz16())
	if flags&0x20 != 0 {
		w.U16(g.u16())
	} else {
		w.U16(0)
	}
	g.tcpOptions((doff - 5) * 4)
	if ndata >= 0 {
		w.Bytes(g.r.Bytes(ndata))
		return
	}
	if flags&0x02 != 0 && f.alignFrom < 0 && g.r.Chance(0.8) {
		return // SYN segments normally carry no data
	}
	g.payload(0, 9000, f)
}

func (g *pktGen) tcpOptions(n int) {
	w := g.w
	rem := n
	for rem > 0 {
		c := g.r.Pick(3, 2, 2, 2, 2, 2, 1, 1)
		switch {
		case c == 0: // NOP
			w.MU8(1, "tcp.opt.kind")
			rem--
		case c == 1 && rem >= 4: // MSS
			w.MU8(2, "tcp.opt.kind")
			w.MU8(4, "tcp.opt.len")
			w.U16(uint16(g.r.Range(536, 8960)))
			rem -= 4
		case c == 2 && rem >= 3: // window scale
			w.MU8(3, "tcp.opt.kind")
			w.MU8(3, "tcp.opt.len")
			w.U8(uint8(g.r.Intn(15)))
			rem -= 3
		case c == 3 && rem >= 2: // SACK permitted
			w.MU8(4, "tcp.opt.kind")
			w.MU8(2, "tcp.opt.len")
			rem -= 2
		case c == 4 && rem >= 10: // SACK blocks
			k := g.r.Range(1, (rem-2)/8)
			if k > 4 {
				k = 4
			}
			w.MU8(5, "tcp.opt.kind")
			w.MU8(uint8(2+8*k), "tcp.opt.len")
			w.Bytes(g.r.Bytes(8 * k))
			rem -= 2 + 8*k
		case c == 5 && rem >= 10: // timestamps
			w.MU8(8, "tcp.opt.kind")
			w.MU8(10, "tcp.opt.len")
			w.Bytes(g.r.Bytes(8))
			rem -= 10
		case c == 6 && rem >= 4: // experimental (RFC 6994), arbitrary length
			k := g.r.Range(4, rem)
			w.MU8(253, "tcp.opt.kind")
			w.MU8(uint8(k), "tcp.opt.len")
			w.Bytes(g.r.Bytes(k - 2))
			rem -= k
		case c == 7: // end of option list + padding
			w.MU8(0, "tcp.opt.kind")
			w.Zero(rem - 1)
			rem = 0
		}
	}
}

// ---------------------------------------------------------------------------------------
// ICMP (RFC 792)
// ---------------------------------------------------------------------------------------

// quotedIPv4 is the "internet header + 64 bits of original datagram" of ICMP errors.
func (g *pktGen) quotedIPv4() []byte {
	q := &W{}
	q.U8(0x45)
	q.U8(0)
	q.U16(uint16(g.r.Range(28, 1500)))
	q.U16(g.u16())
	q.U16(0x4000)
	q.U8(uint8(g.r.Range(1, 64)))
	q.U8([]uint8{pkProtoUDP, pkProtoTCP, pkProtoICMP}[g.r.Intn(3)])
	q.U16(0)
	q.Bytes(g.ip4addr(false))
	q.Bytes(g.ip4addr(false))
	q.Put16(10, pktChecksum(q.B))
	q.Bytes(g.r.Bytes(8))
	return q.B
}

func (g *pktGen) icmp4(f pktFrag) {
	w := g.w
	start := w.Len()
	c := g.r.Pick(5, 2, 2, 1, 1, 2)
	if f.alignFrom >= 0 {
		c = 0 // only echo messages get big enough to be fragmented
	}
	csumOff := start + 2
	switch c {
	case 0: // echo request / reply
		w.MU8([]uint8{8, 0}[g.r.Intn(2)], "icmp.type")
		w.U8(0)
		w.U16(0)
		w.U16(g.u16())
		w.U16(g.u16())
		g.payload(0, 9000, f)
	case 1: // destination unreachable
		w.MU8(3, "icmp.type")
		w.U8(uint8(g.r.Intn(16)))
		w.U16(0)
		w.U32(0)
		w.Bytes(g.quotedIPv4())
	case 2: // time exceeded
		w.MU8(11, "icmp.type")
		w.U8(uint8(g.r.Intn(2)))
		w.U16(0)
		w.U32(0)
		w.Bytes(g.quotedIPv4())
	case 3: // redirect
		w.MU8(5, "icmp.type")
		w.U8(uint8(g.r.Intn(4)))
		w.U16(0)
		w.Bytes(g.ip4addr(false))
		w.Bytes(g.quotedIPv4())
	case 4: // timestamp / timestamp reply
		w.MU8([]uint8{13, 14}[g.r.Intn(2)], "icmp.type")
		w.U8(0)
		w.U16(0)
		w.U16(g.u16())
		w.U16(g.u16())
		w.Bytes(g.r.Bytes(12))
	case 5: // multi-part message (RFC 4884): padded original datagram + extension structure
		typ := []uint8{3, 11, 12}[g.r.Intn(3)]
		w.MU8(typ, "icmp.type")
		w.U8(uint8(g.r.Intn(2)))
		w.U16(0)
		if typ == 12 {
			w.U8(uint8(g.r.Intn(20))) // pointer
		} else {
			w.U8(0)
		}
		words := g.r.Range(32, 40) // at least 128 bytes of original datagram, zero padded
		w.MU8(uint8(words), "icmp.mp.length")
		w.U16(0)
		q := g.quotedIPv4()
		w.Bytes(q)
		w.Zero(4*words - len(q))
		es := w.Len()
		w.MU8(0x20, "icmp.ext.version")
		w.U8(0)
		w.U16(0)
		for i, nobj := 0, g.r.Range(0, 3); i < nobj; i++ {
			n := 4 * g.r.Range(0, 4)
			w.MU16(uint16(4+n), "icmp.ext.objlen")
			w.U8(uint8(g.r.Range(1, 3))) // MPLS label stack, interface information, ...
			w.U8(1)
			w.Bytes(g.r.Bytes(n))
		}
		w.Put16(es+2, pktChecksum(w.B[es:]))
		w.MarkSum(es+2, es, w.Len()-es)
	}
	if f.alignFrom < 0 {
		w.Put16(csumOff, pktChecksum(w.B[start:]))
		w.MarkSum(csumOff, start, w.Len()-start)
	} else {
		w.Put16(csumOff, g.nz16())
	}
}

// ---------------------------------------------------------------------------------------
// IGMP (RFC 1112, RFC 2236, RFC 3376)
// ---------------------------------------------------------------------------------------

func (g *pktGen) igmpV1V2(v1 bool) {
	w := g.w
	start := w.Len()
	var typ, resp uint8
	if v1 {
		typ = []uint8{0x11, 0x12}[g.r.Intn(2)]
	} else {
		typ = []uint8{0x11, 0x16, 0x17}[g.r.Intn(3)]
		if typ == 0x11 {
			resp = uint8(g.r.Range(1, 255))
		}
	}
	w.MU8(typ, "igmp.type")
	w.U8(resp)
	w.U16(0)
	if typ == 0x11 && g.r.Chance(0.5) {
		w.U32(0) // general query
	} else {
		w.Bytes(g.ip4addr(true))
	}
	w.Put16(start+2, pktChecksum(w.B[start:]))
	w.MarkSum(start+2, start, w.Len()-start)
}

func (g *pktGen) igmpV3Query(nsrc int) {
	w := g.w
	start := w.Len()
	w.MU8(0x11, "igmp.type")
	w.U8(uint8(g.r.Range(1, 255)))
	w.U16(0)
	if nsrc == 0 && g.r.Chance(0.5) {
		w.U32(0)
	} else {
		w.Bytes(g.ip4addr(true))
	}
	w.U8(uint8(g.r.Intn(16))) // Resv(0) | S | QRV
	w.U8(uint8(g.r.Intn(256)))
	w.MU16(uint16(nsrc), "igmp.nsrc")
	for i := 0; i < nsrc; i++ {
		w.Bytes(g.ip4addr(false))
	}
	w.Put16(start+2, pktChecksum(w.B[start:]))
	w.MarkSum(start+2, start, w.Len()-start)
}

// igmpV3Record writes one group record with nsrc sources and aux 32-bit words of aux data.
func (g *pktGen) igmpV3Record(nsrc, aux int) {
	w := g.w
	w.MU8(uint8(g.r.Range(1, 6)), "igmp.rec.type")
	w.MU8(uint8(aux), "igmp.rec.auxlen")
	w.MU16(uint16(nsrc), "igmp.rec.nsrc")
	w.Bytes(g.ip4addr(true))
	for i := 0; i < nsrc; i++ {
		w.Bytes(g.ip4addr(false))
	}
	w.Bytes(g.r.Bytes(4 * aux))
}

func (g *pktGen) igmpV3Report(ngroups, maxSrc int) {
	w := g.w
	start := w.Len()
	w.MU8(0x22, "igmp.type")
	w.U8(0)
	w.U16(0)
	w.U16(0)
	w.MU16(uint16(ngroups), "igmp.ngroups")
	for i := 0; i < ngroups; i++ {
		aux := 0
		if maxSrc > 0 && g.r.Chance(0.3) {
			aux = g.r.Range(1, 3)
		}
		g.igmpV3Record(g.r.Range(0, maxSrc), aux)
	}
	w.Put16(start+2, pktChecksum(w.B[start:]))
	w.MarkSum(start+2, start, w.Len()-start)
}

// ---------------------------------------------------------------------------------------
// IPv6 (RFC 8200) and extension headers
// ---------------------------------------------------------------------------------------

const (
	pkExtHBH            = iota // hop-by-hop options, PadN + TLV options only
	pkExtHBHRouterAlert        // the classic MLD header: router alert + PadN(0)
	pkExtHBHPad1               // hop-by-hop options containing Pad1
	pkExtHBH255                // hop-by-hop options, Hdr Ext Len 255 (2048 bytes)
	pkExtHBHLongOpt            // hop-by-hop options with one option of 254 or 255 data bytes
	pkExtRouting
	pkExtRouting255 // segment routing header, Hdr Ext Len 255 (2048 bytes)
	pkExtFragFirst  // offset 0, M=1
	pkExtFragAtomic // offset 0, M=0 (RFC 6946)
	pkExtFragLater  // offset > 0
	pkExtDstOpts
	pkExtAH
)

func pktExtProto(e int) uint8 {
	switch e {
	case pkExtHBH, pkExtHBHRouterAlert, pkExtHBHPad1, pkExtHBH255, pkExtHBHLongOpt:
		return pkProtoHBH
	case pkExtRouting, pkExtRouting255:
		return pkProtoRouting
	case pkExtFragFirst, pkExtFragAtomic, pkExtFragLater:
		return pkProtoFrag
	case pkExtDstOpts:
		return pkProtoDstOpts
	}
	return pkProtoAH
}

func (g *pktGen) ip6addr(multicast bool) []byte {
	a := g.r.Bytes(16)
	switch {
	case multicast:
		a[0], a[1] = 0xff, 0x02
	case g.r.Chance(0.3):
		a[0], a[1] = 0xfe, 0x80
	default:
		a[0] = 0x20 | a[0]&0x1f
	}
	return a
}

func (g *pktGen) ipv6(exts []int, sel int) {
	w := g.w
	proto := g.l4proto(sel, true)
	w.U32(6<<28 | uint32(g.r.Intn(256))<<20 | uint32(g.r.Intn(1<<20)))
	lenOff := w.Len()
	w.MU16(0, "ipv6.payload_len")
	nh := proto
	if len(exts) > 0 {
		nh = pktExtProto(exts[0])
	}
	w.MU8(nh, "ipv6.next_header")
	w.U8(uint8(g.r.Range(1, 255)))
	w.Bytes(g.ip6addr(false))
	w.Bytes(g.ip6addr(sel == pkL4MLD || g.r.Chance(0.1)))
	start := w.Len()
	f := pktNoFrag
	for i, e := range exts {
		next := proto
		if i+1 < len(exts) {
			next = pktExtProto(exts[i+1])
		}
		g.ext6(e, next, &f)
	}
	g.l4body(sel, proto, true, f)
	w.Put16(lenOff, uint16(w.Len()-start))
}

func (g *pktGen) ext6(e int, next uint8, f *pktFrag) {
	w := g.w
	switch e {
	case pkExtHBH, pkExtDstOpts:
		hel := g.r.Range(0, 3)
		if g.r.Chance(0.2) {
			hel = g.r.Range(4, 40)
		}
		w.MU8(next, "ext.next_header")
		w.MU8(uint8(hel), "ext.len")
		g.options6(8*(hel+1)-2, 0, e == pkExtDstOpts)
	case pkExtHBHRouterAlert:
		w.MU8(next, "ext.next_header")
		w.MU8(0, "ext.len")
		w.MU8(5, "opt.type")
		w.MU8(2, "opt.len")
		w.U16(0)
		w.MU8(1, "opt.type") // PadN with zero data bytes
		w.MU8(0, "opt.len")
	case pkExtHBHPad1:
		hel := g.r.Range(0, 3)
		w.MU8(next, "ext.next_header")
		w.MU8(uint8(hel), "ext.len")
		g.options6(8*(hel+1)-2, 1, false)
	case pkExtHBH255:
		w.MU8(next, "ext.next_header")
		w.MU8(255, "ext.len")
		g.options6(2046, 0, false)
	case pkExtHBHLongOpt:
		hel := g.r.Range(33, 40)
		w.MU8(next, "ext.next_header")
		w.MU8(uint8(hel), "ext.len")
		g.options6(8*(hel+1)-2, 2, false)
	case pkExtRouting:
		g.routing6(next, false)
	case pkExtRouting255:
		g.routing6(next, true)
	case pkExtFragFirst, pkExtFragAtomic, pkExtFragLater:
		w.MU8(next, "ext.next_header")
		w.U8(0)
		var v uint16
		switch e {
		case pkExtFragFirst:
			v = 1
			f.extra = 8 * g.r.Range(1, 180)
		case pkExtFragLater:
			f.last = g.r.Chance(0.5)
			v = uint16(g.r.Range(1, 1000)) << 3
			if !f.last {
				v |= 1
			}
		}
		w.MU16(v, "ipv6.frag")
		w.U32(g.u32())
		if e == pkExtFragFirst {
			f.alignFrom = w.Len()
		}
	case pkExtAH:
		w.MU8(next, "ext.next_header")
		w.MU8(4, "ext.len") // (24 bytes / 4) - 2
		w.U16(0)
		w.U32(g.u32()) // SPI
		w.U32(g.u32()) // sequence number
		w.Bytes(g.r.Bytes(12))
	}
}

// options6 fills exactly area bytes with hop-by-hop / destination options.
// mode 0: PadN and TLV options with at most 253 data bytes; mode 1: at least one Pad1 as
// well; mode 2: like 0 plus one option with 254 or 255 data bytes (the maximum).
func (g *pktGen) options6(area int, mode int, dst bool) {
	w := g.w
	base := w.Len() - 2 // start of the extension header: option alignment is relative to it
	rem := area
	tail := false
	if mode == 2 {
		mode = 0
		n := g.r.Range(254, 255)
		if rem >= n+2+2 {
			w.MU8([]uint8{0x1e, 0x3e}[g.r.Intn(2)], "opt.type")
			w.MU8(uint8(n), "opt.len")
			w.Bytes(g.r.Bytes(n))
			rem -= n + 2
		}
	}
	if mode == 1 {
		rem--
		if g.r.Chance(0.5) {
			w.MU8(0, "opt.type")
		} else {
			tail = true
		}
	}
	for rem > 0 {
		if mode == 1 && (rem == 1 || g.r.Chance(0.25)) {
			w.MU8(0, "opt.type") // Pad1
			rem--
			continue
		}
		c := g.r.Pick(4, 3, 2)
		typ, limit, t := uint8(1), 7, 0
		switch c {
		case 0: // PadN, 2..7 bytes in total
		case 1: // experimental / unassigned types, any length
			typ = []uint8{0x1e, 0x3e, 0x5e, 0x7e, 0x9e, 0xbe, 0x31, 0x12}[g.r.Intn(8)]
			limit = 255
		case 2: // well-known fixed-size options
			pos, mod, want := w.Len()-base, 1, 0 // alignment requirement: pos = mod*n + want
			if dst {
				switch g.r.Intn(2) {
				case 0:
					typ, t = 4, 3 // tunnel encapsulation limit
				case 1:
					typ, t, mod, want = 0xc9, 18, 8, 6 // home address
				}
			} else {
				switch g.r.Intn(3) {
				case 0:
					typ, t, mod = 5, 4, 2 // router alert
				case 1:
					typ, t, mod, want = 0x26, 8, 4, 2 // quick-start
				case 2:
					typ, t, mod = 0x63, 6, 2 // RPL option
				}
			}
			if t > rem || (mode == 0 && rem-t == 1) || pos%mod != want {
				typ, t = 1, 0 // does not fit: pad instead
			}
		}
		if t == 0 {
			if limit > rem {
				limit = rem
			}
			t = g.r.Range(2, limit)
			if c == 1 && g.r.Chance(0.7) && t > 12 {
				t = g.r.Range(2, 12)
			}
			if mode == 0 && rem-t == 1 {
				if t+1 <= limit {
					t++
				} else {
					t--
				}
			}
		}
		w.MU8(typ, "opt.type")
		w.MU8(uint8(t-2), "opt.len")
		if typ == 1 {
			w.Zero(t - 2)
		} else {
			w.Bytes(g.r.Bytes(t - 2))
		}
		rem -= t
	}
	if tail {
		w.MU8(0, "opt.type")
	}
}

func (g *pktGen) routing6(next uint8, max bool) {
	w := g.w
	w.MU8(next, "ext.next_header")
	if max {
		// segment routing header: 127 segments + one 8 byte padding TLV = 8*(255+1) bytes
		w.MU8(255, "ext.len")
		w.MU8(4, "routing.type")
		w.MU8(uint8(g.r.Intn(127)), "routing.segleft")
		w.U8(126)
		w.U8(0)
		w.U16(g.u16())
		for i := 0; i < 127; i++ {
			w.Bytes(g.ip6addr(false))
		}
		w.Bytes([]byte{4, 6, 0, 0, 0, 0, 0, 0})
		return
	}
	n := g.r.Range(1, 4)
	switch g.r.Pick(2, 2, 1, 3) {
	case 0: // type 0 (deprecated by RFC 5095 but well-formed)
		w.MU8(uint8(2*n), "ext.len")
		w.MU8(0, "routing.type")
		w.MU8(uint8(g.r.Intn(n+1)), "routing.segleft")
		w.U32(0)
	case 1: // type 2, mobile IPv6: exactly one address
		n = 1
		w.MU8(2, "ext.len")
		w.MU8(2, "routing.type")
		w.MU8(1, "routing.segleft")
		w.U32(0)
	case 2: // type 3, RPL source route header (RFC 6554), with or without address compression
		if g.r.Chance(0.6) {
			ci, ce := g.r.Intn(16), g.r.Intn(16)
			size := (n-1)*(16-ci) + (16 - ce)
			pad := (8 - size%8) % 8
			w.MU8(uint8((size+pad)/8), "ext.len")
			w.MU8(3, "routing.type")
			w.MU8(uint8(g.r.Intn(n+1)), "routing.segleft")
			w.MU8(uint8(ci<<4|ce), "routing.rpl.cmpr")
			w.MU8(uint8(pad<<4), "routing.rpl.pad")
			w.U16(0)
			w.Bytes(g.r.Bytes(size))
			w.Zero(pad)
			return
		}
		w.MU8(uint8(2*n), "ext.len")
		w.MU8(3, "routing.type")
		w.MU8(uint8(g.r.Intn(n+1)), "routing.segleft")
		w.U32(0)
	case 3: // type 4, segment routing header
		tlv := g.r.Pick(3, 1, 1)
		extra := []int{0, 1, 5}[tlv]
		w.MU8(uint8(2*n+extra), "ext.len")
		w.MU8(4, "routing.type")
		w.MU8(uint8(g.r.Intn(n)), "routing.segleft")
		w.U8(uint8(n - 1))
		w.U8(0)
		w.U16(g.u16())
		for i := 0; i < n; i++ {
			w.Bytes(g.ip6addr(false))
		}
		switch tlv {
		case 1:
			w.Bytes([]byte{4, 6, 0, 0, 0, 0, 0, 0}) // PadN TLV
		case 2:
			w.Bytes([]byte{5, 38, 0, 0}) // HMAC TLV
			w.Bytes(g.r.Bytes(36))
		}
		return
	}
	for i := 0; i < n; i++ {
		w.Bytes(g.ip6addr(false))
	}
}

// ---------------------------------------------------------------------------------------
// ICMPv6 (RFC 4443), neighbour discovery (RFC 4861), MLD (RFC 2710, RFC 3810)
// ---------------------------------------------------------------------------------------

func (g *pktGen) quotedIPv6() []byte {
	q := &W{}
	n := 8 * g.r.Range(1, 6)
	q.U32(6 << 28)
	q.U16(uint16(n))
	q.U8([]uint8{pkProtoUDP, pkProtoTCP, pkProtoICMPv6}[g.r.Intn(3)])
	q.U8(uint8(g.r.Range(1, 64)))
	q.Bytes(g.ip6addr(false))
	q.Bytes(g.ip6addr(false))
	q.Bytes(g.r.Bytes(n))
	return q.B
}

func (g *pktGen) ndOption(typ uint8) {
	w := g.w
	switch typ {
	case 1, 2: // source / target link-layer address
		w.MU8(typ, "nd.opt.type")
		w.MU8(1, "nd.opt.len")
		w.Bytes(g.mac(true))
	case 5: // MTU
		w.MU8(5, "nd.opt.type")
		w.MU8(1, "nd.opt.len")
		w.U16(0)
		w.U32(uint32(g.r.Range(1280, 9000)))
	case 3: // prefix information
		w.MU8(3, "nd.opt.type")
		w.MU8(4, "nd.opt.len")
		w.U8(64)
		w.U8(0xc0)
		w.U32(g.u32())
		w.U32(g.u32())
		w.U32(0)
		w.Bytes(g.ip6addr(false))
	}
}

func (g *pktGen) icmp6(mld bool, f pktFrag) {
	w := g.w
	c := g.r.Pick(5, 3, 1, 2, 2, 2)
	if mld {
		c = 6 + g.r.Pick(2, 2, 1)
	}
	if f.alignFrom >= 0 {
		c = 0
	}
	switch c {
	case 0: // echo request / reply
		w.MU8([]uint8{128, 129}[g.r.Intn(2)], "icmp.type")
		w.U8(0)
		w.U16(g.nz16())
		w.U16(g.u16())
		w.U16(g.u16())
		g.payload(0, 9000, f)
	case 1: // error messages
		typ := uint8(g.r.Range(1, 4))
		w.MU8(typ, "icmp.type")
		w.U8(uint8(g.r.Intn(3)))
		w.U16(g.nz16())
		if typ == 2 {
			w.U32(uint32(g.r.Range(1280, 9000)))
		} else {
			w.U32(0)
		}
		w.Bytes(g.quotedIPv6())
	case 2: // router solicitation
		w.MU8(133, "icmp.type")
		w.U8(0)
		w.U16(g.nz16())
		w.U32(0)
		if g.r.Chance(0.6) {
			g.ndOption(1)
		}
	case 3: // router advertisement
		w.MU8(134, "icmp.type")
		w.U8(0)
		w.U16(g.nz16())
		w.U8(64)
		w.U8(uint8(g.r.Intn(4)) << 6)
		w.U16(g.u16())
		w.U32(g.u32())
		w.U32(g.u32())
		for i, n := 0, g.r.Range(0, 4); i < n; i++ {
			g.ndOption([]uint8{1, 5, 3}[g.r.Intn(3)])
		}
	case 4: // neighbour solicitation
		w.MU8(135, "icmp.type")
		w.U8(0)
		w.U16(g.nz16())
		w.U32(0)
		w.Bytes(g.ip6addr(false))
		if g.r.Chance(0.7) {
			g.ndOption(1)
		}
	case 5: // neighbour advertisement
		w.MU8(136, "icmp.type")
		w.U8(0)
		w.U16(g.nz16())
		w.U32(uint32(g.r.Intn(8)) << 29)
		w.Bytes(g.ip6addr(false))
		if g.r.Chance(0.7) {
			g.ndOption(2)
		}
	case 6: // MLDv1 query / report / done
		w.MU8(uint8(g.r.Range(130, 132)), "icmp.type")
		w.U8(0)
		w.U16(g.nz16())
		w.U16(g.u16())
		w.U16(0)
		w.Bytes(g.ip6addr(true))
	case 7: // MLDv2 report
		n := g.r.Range(0, 4)
		w.MU8(143, "icmp.type")
		w.U8(0)
		w.U16(g.nz16())
		w.U16(0)
		w.MU16(uint16(n), "mld.nrec")
		for i := 0; i < n; i++ {
			ns := g.r.Range(0, 3)
			w.U8(uint8(g.r.Range(1, 6)))
			w.MU8(0, "mld.rec.auxlen")
			w.MU16(uint16(ns), "mld.rec.nsrc")
			w.Bytes(g.ip6addr(true))
			for j := 0; j < ns; j++ {
				w.Bytes(g.ip6addr(false))
			}
		}
	case 8: // MLDv2 query
		ns := g.r.Range(0, 4)
		w.MU8(130, "icmp.type")
		w.U8(0)
		w.U16(g.nz16())
		w.U16(g.u16())
		w.U16(0)
		w.Bytes(g.ip6addr(true))
		w.U8(uint8(g.r.Intn(16)))
		w.U8(uint8(g.r.Intn(256)))
		w.MU16(uint16(ns), "mld.nsrc")
		for j := 0; j < ns; j++ {
			w.Bytes(g.ip6addr(false))
		}
	}
}

// ---------------------------------------------------------------------------------------
// DHCP (RFC 2131, RFC 2132)
// ---------------------------------------------------------------------------------------

func (g *pktGen) udpDHCP() {
	sp, dp := 68, 67
	switch g.r.Pick(4, 4, 1) {
	case 1:
		sp, dp = 67, 68
	case 2:
		sp, dp = 67, 67 // relay agent to server
	}
	g.udp(sp, dp, pktNoFrag, func() { g.dhcp(sp == 68) })
}

func (g *pktGen) dhcp(fromClient bool) {
	w := g.w
	start := w.Len()
	op := uint8(2)
	if fromClient {
		op = 1
	}
	w.MU8(op, "dhcp.op")
	hlen := 6
	htype := uint8(1)
	if g.r.Chance(0.08) {
		htype, hlen = 32, g.r.Range(0, 16) // other link types: chaddr of up to 16 bytes
	}
	w.MU8(htype, "dhcp.htype")
	w.MU8(uint8(hlen), "dhcp.hlen")
	w.U8(uint8(g.r.Intn(4))) // hops
	w.U32(g.u32())           // xid
	w.U16(uint16(g.r.Intn(300)))
	w.U16(uint16(g.r.Intn(2)) << 15) // broadcast flag
	for i := 0; i < 4; i++ {         // ciaddr, yiaddr, siaddr, giaddr
		if g.r.Chance(0.5) {
			w.U32(0)
		} else {
			w.Bytes(g.ip4addr(false))
		}
	}
	w.Bytes(g.r.Bytes(hlen))
	w.Zero(16 - hlen)
	// option overload (RFC 2132 9.3, option 52): the sname and/or file fields carry options.
	// Added after the sensitivity waves: the overloaded fields may themselves contain an
	// overload option (meaningless, but bytes a server can receive).
	overload := 0
	if g.r.Chance(0.12) {
		overload = 1 + g.r.Intn(3)
	}
	overloaded := func(size int) {
		start := w.Len()
		if g.r.Chance(0.4) {
			w.MU8(52, "dhcp.opt.type")
			w.MU8(1, "dhcp.opt.len")
			w.U8(uint8(1 + g.r.Intn(3)))
		}
		for k := g.r.Intn(4); k > 0 && w.Len()-start < size-8; k-- {
			w.MU8([]uint8{1, 3, 6, 12, 51, 54}[g.r.Intn(6)], "dhcp.opt.type")
			w.MU8(4, "dhcp.opt.len")
			w.Bytes(g.r.Bytes(4))
		}
		w.MU8(255, "dhcp.opt.type")
		w.Zero(size - (w.Len() - start))
	}
	if overload&2 != 0 {
		overloaded(64)
	} else if g.r.Chance(0.2) { // sname
		s := g.r.Range(1, 63)
		w.Bytes(g.ascii(s))
		w.Zero(64 - s)
	} else {
		w.Zero(64)
	}
	if overload&1 != 0 {
		overloaded(128)
	} else if g.r.Chance(0.2) { // file
		s := g.r.Range(1, 127)
		w.Bytes(g.ascii(s))
		w.Zero(128 - s)
	} else {
		w.Zero(128)
	}
	w.MU32(0x63825363, "dhcp.magic")
	if overload != 0 {
		w.MU8(52, "dhcp.opt.type")
		w.MU8(1, "dhcp.opt.len")
		w.U8(uint8(overload))
	}
	g.dhcpOptions(g.r.Range(0, 20), fromClient)
	// trailing zero bytes after the end option: BOOTP minimum of 300 bytes, or up to the hint
	if n := 300 - (w.Len() - start); n > 0 && g.r.Chance(0.6) {
		w.Zero(n)
	}
	if g.size > 0 && g.r.Chance(0.7) {
		if n := g.size - w.Len(); n > 0 {
			w.Zero(n)
		}
	}
}

func (g *pktGen) ascii(n int) []byte {
	b := g.r.Bytes(n)
	for i := range b {
		b[i] = 'a' + b[i]%26
	}
	return b
}

// dhcpOptions writes n options (pad options count) followed by the end option.
func (g *pktGen) dhcpOptions(n int, fromClient bool) {
	w := g.w
	opt := func(t uint8, data []byte) {
		w.MU8(t, "dhcp.opt.type")
		w.MU8(uint8(len(data)), "dhcp.opt.len")
		w.Bytes(data)
	}
	for i := 0; i < n; i++ {
		if i == 0 && g.r.Chance(0.8) { // message type usually comes first
			if fromClient {
				opt(53, []byte{[]byte{1, 3, 4, 7, 8}[g.r.Intn(5)]})
			} else {
				opt(53, []byte{[]byte{2, 5, 6}[g.r.Intn(3)]})
			}
			continue
		}
		switch g.r.Pick(2, 3, 3, 3, 2, 2, 2, 1, 1) {
		case 0: // pad
			w.MU8(0, "dhcp.opt.type")
		case 1: // single IPv4 address
			opt([]uint8{1, 28, 50, 54}[g.r.Intn(4)], g.r.Bytes(4))
		case 2: // list of IPv4 addresses
			opt([]uint8{3, 6, 42, 44}[g.r.Intn(4)], g.r.Bytes(4*g.r.Range(1, 4)))
		case 3: // 32 bit times
			opt([]uint8{51, 58, 59, 2}[g.r.Intn(4)], g.r.Bytes(4))
		case 4: // strings
			opt([]uint8{12, 15, 60, 56, 17}[g.r.Intn(5)], g.ascii(g.r.Range(1, 40)))
		case 5: // parameter request list
			opt(55, g.r.Bytes(g.r.Range(1, 16)))
		case 6: // client identifier
			opt(61, append([]byte{1}, g.r.Bytes(6)...))
		case 7: // 16 bit / 8 bit values
			if g.r.Chance(0.5) {
				opt(57, []byte{0x05, 0xdc})
			} else {
				opt([]uint8{19, 23, 46, 116}[g.r.Intn(4)], []byte{byte(g.r.Range(1, 3))})
			}
		case 8: // opaque: vendor specific, relay agent information, long values
			k := g.r.Range(1, 64)
			if g.r.Chance(0.15) {
				k = g.r.Range(200, 255)
			}
			opt([]uint8{43, 82, 125, 224}[g.r.Intn(4)], g.r.Bytes(k))
		}
	}
	w.MU8(255, "dhcp.opt.type")
}

// ---------------------------------------------------------------------------------------
// LLDP (IEEE 802.1AB)
// ---------------------------------------------------------------------------------------

func (g *pktGen) lldpTLV(typ int, val []byte) {
	g.w.MU16(uint16(typ)<<9|uint16(len(val)), "lldp.tlv")
	g.w.Bytes(val)
}

// lldpID is the value of a chassis-id / port-id TLV: subtype byte + 1..255 id bytes.
func (g *pktGen) lldpID(port bool) []byte {
	var sub uint8
	var id []byte
	macSub, netSub := uint8(4), uint8(5)
	if port {
		macSub, netSub = 3, 4
	}
	switch g.r.Pick(4, 2, 4, 1) {
	case 0:
		sub, id = macSub, g.mac(true)
	case 1:
		sub, id = netSub, append([]byte{1}, g.r.Bytes(4)...) // IANA family 1 = IPv4
	case 2:
		if port {
			sub = []uint8{1, 2, 5, 6, 7}[g.r.Intn(5)]
		} else {
			sub = []uint8{1, 2, 3, 6, 7}[g.r.Intn(5)]
		}
		id = g.ascii(g.r.Range(1, 32))
	case 3:
		sub, id = 7, g.ascii(g.r.Range(33, 255))
	}
	return append([]byte{sub}, id...)
}

// lldp writes one LLDPDU; offs (optional) receives the offsets of the three mandatory TLVs.
func (g *pktGen) lldp(optional bool, offs *[3]int) {
	w := g.w
	var o [3]int
	o[0] = w.Len()
	g.lldpTLV(1, g.lldpID(false))
	o[1] = w.Len()
	g.lldpTLV(2, g.lldpID(true))
	o[2] = w.Len()
	g.lldpTLV(3, []byte{byte(g.r.Intn(256)), byte(g.r.Intn(256))})
	if offs != nil {
		*offs = o
	}
	if optional {
		// an LLDPDU is at most 1500 bytes; keep room for the end TLV
		hard := o[0] + 1500 - 2
		limit := g.size
		if limit > hard {
			limit = hard
		}
		for i, n := 0, g.r.Range(1, 8); i < n || w.Len()+64 < limit; i++ {
			var typ int
			var v []byte
			switch g.r.Pick(2, 2, 2, 2, 2, 4) {
			case 0:
				typ, v = 4, g.ascii(g.r.Range(0, 40)) // port description
			case 1:
				typ, v = 5, g.ascii(g.r.Range(0, 40)) // system name
			case 2:
				typ, v = 6, g.ascii(g.r.Range(0, 255)) // system description
			case 3:
				typ, v = 7, g.r.Bytes(4) // system capabilities
			case 4: // management address
				typ, v = 8, []byte{5, 1}
				v = append(v, g.r.Bytes(4)...)
				v = append(v, 2)
				v = append(v, g.r.Bytes(4)...)
				v = append(v, 0)
			case 5: // organizationally specific
				k := g.r.Range(0, 60)
				if limit-w.Len() > 600 {
					k = g.r.Range(0, 507)
				}
				typ, v = 127, []byte{0x00, 0x80, 0xc2, byte(g.r.Range(1, 7))}
				v = append(v, g.r.Bytes(k)...)
			}
			if w.Len()+2+len(v) > hard || i > 400 {
				break
			}
			g.lldpTLV(typ, v)
		}
	}
	if g.r.Chance(0.9) {
		g.lldpTLV(0, nil) // end of LLDPDU
		if g.r.Chance(0.5) {
			g.ethPad()
		}
	}
}

// ---------------------------------------------------------------------------------------
// single-decoder inputs
// ---------------------------------------------------------------------------------------

var pktDecoderKinds = []string{
	"ethernet", "vlan", "arp", "ipv4", "ipv6",
	"ipv6_option", "ipv6_hbh", "ipv6_routing", "ipv6_fragment",
	"icmp", "tcp", "udp",
	"igmp_v1v2", "igmpv3_query", "igmpv3_grouprecord", "igmpv3_report",
	"dhcp", "dhcp_options",
	"lldp", "lldp_chassis", "lldp_port", "lldp_ttl",
	// valid inputs outside the subset the library understands (same entry points as above)
	"ipv6_option_pad1_unsupported", "ipv6_hbh_pad1_unsupported", "ipv6_hbh_longopt_unsupported",
	"ipv6_hbh_hel255_unsupported", "ipv6_routing_hel255_unsupported",
}

// DecoderKinds lists the individually addressable decoder entry points of package protocol.
func DecoderKinds() []string {
	return append([]string(nil), pktDecoderKinds...)
}

// pickSubsetKind picks (weighted) a packet kind with the given ethertype that lies inside
// the library's subset; etype 0 = any kind.
func pktPickSubsetKind(r *simrt.RNG, etype uint16) pktKindDef {
	ws := make([]int, len(pktKindTable))
	for i, k := range pktKindTable {
		if k.subset && (etype == 0 || (k.etype == etype && !k.vlan)) {
			ws[i] = k.weight
		}
	}
	return pktKindTable[r.Pick(ws...)]
}

// DecoderInput builds a valid input for one decoder alone.
func DecoderInput(kind string, r *simrt.RNG, sizeHint int) (b []byte, marks []Mark) {
	g := newPktGen(r, sizeHint)
	// trailer: what follows a header when the decoder is handed "the rest of the packet"
	trailer := func() {
		if r.Chance(0.5) {
			g.w.Bytes(r.Bytes(g.room(0, 9000, 0)))
		}
	}
	switch kind {
	case "ethernet":
		return Packet(pktPickSubsetKind(r, 0).name, r, sizeHint)
	case "vlan":
		g.vlanTag(pkEthVLAN)
		g.w.MU16([]uint16{0x88b5, pkEthIPv4, pkEthARP}[r.Intn(3)], "vlan.type")
		trailer()
	case "arp":
		g.arp(r.Chance(0.2), false)
		if r.Chance(0.3) {
			g.w.Zero(18) // Ethernet padding
		}
	case "ipv4":
		pktPickSubsetKind(r, pkEthIPv4).l3(g)
	case "ipv6":
		pktPickSubsetKind(r, pkEthIPv6).l3(g)
	case "ipv6_option":
		g.options6(r.Range(2, 40), 0, false)
		// exactly one option is what the decoder consumes; more options may follow
	case "ipv6_option_pad1_unsupported":
		g.w.MU8(0, "opt.type")
		if r.Chance(0.5) {
			g.options6(r.Range(2, 12), 0, false)
		}
	case "ipv6_hbh":
		g.ext6([]int{pkExtHBH, pkExtHBHRouterAlert}[r.Pick(4, 1)], pkProtoUDP, &pktFrag{})
		trailer()
	case "ipv6_hbh_pad1_unsupported":
		g.ext6(pkExtHBHPad1, pkProtoUDP, &pktFrag{})
		trailer()
	case "ipv6_hbh_hel255_unsupported":
		g.ext6(pkExtHBH255, pkProtoUDP, &pktFrag{})
		trailer()
	case "ipv6_hbh_longopt_unsupported":
		g.ext6(pkExtHBHLongOpt, pkProtoUDP, &pktFrag{})
		trailer()
	case "ipv6_routing":
		g.ext6(pkExtRouting, pkProtoTCP, &pktFrag{})
		trailer()
	case "ipv6_routing_hel255_unsupported":
		g.ext6(pkExtRouting255, pkProtoTCP, &pktFrag{})
		trailer()
	case "ipv6_fragment":
		g.ext6([]int{pkExtFragFirst, pkExtFragAtomic, pkExtFragLater}[r.Intn(3)], pkProtoUDP, &pktFrag{})
		trailer()
	case "icmp":
		if r.Chance(0.5) {
			g.icmp4(pktNoFrag)
		} else {
			g.icmp6(r.Chance(0.3), pktNoFrag)
		}
	case "tcp":
		g.tcp(pktNoFrag, r.Range(5, 15), -1)
	case "udp":
		if r.Chance(0.25) {
			g.udpDHCP()
		} else {
			g.udp(g.port(), g.port(), pktNoFrag, func() { g.payload(0, 9000, pktNoFrag) })
		}
	case "igmp_v1v2":
		g.igmpV1V2(r.Chance(0.4))
	case "igmpv3_query":
		g.igmpV3Query(r.Range(0, 10))
	case "igmpv3_grouprecord":
		aux := 0
		if r.Chance(0.3) {
			aux = r.Range(1, 3)
		}
		g.igmpV3Record(r.Range(0, 4), aux)
		for i, n := 0, r.Range(0, 2); i < n; i++ { // further records of the same report
			g.igmpV3Record(r.Range(0, 4), 0)
		}
	case "igmpv3_report":
		g.igmpV3Report(r.Range(0, 5), 4)
	case "dhcp":
		g.dhcp(r.Chance(0.5))
	case "dhcp_options":
		g.dhcpOptions(r.Range(0, 20), r.Chance(0.5))
		if r.Chance(0.5) {
			g.w.Zero(r.Range(1, 60))
		}
	case "lldp", "lldp_chassis":
		g.lldp(r.Chance(0.3), nil)
	case "lldp_port", "lldp_ttl":
		var offs [3]int
		g.lldp(r.Chance(0.3), &offs)
		cut := offs[1]
		if kind == "lldp_ttl" {
			cut = offs[2]
		}
		var ms []Mark
		for _, m := range g.w.Marks {
			if m.Off >= cut {
				m.Off -= cut
				ms = append(ms, m)
			}
		}
		return g.w.B[cut:], ms
	default:
		panic("hlib.DecoderInput: unknown kind " + kind)
	}
	return g.w.B, g.w.Marks
}

// RunDecoder runs one decoder entry point of package protocol on b with a fresh value.
func RunDecoder(kind string, b []byte) (any, error) {
	switch kind {
	case "ethernet":
		v := new(protocol.Ethernet)
		return v, v.UnmarshalBinary(b)
	case "vlan":
		v := new(protocol.VLAN)
		return v, v.UnmarshalBinary(b)
	case "arp":
		v := new(protocol.ARP)
		return v, v.UnmarshalBinary(b)
	case "ipv4":
		v := new(protocol.IPv4)
		return v, v.UnmarshalBinary(b)
	case "ipv6":
		v := new(protocol.IPv6)
		return v, v.UnmarshalBinary(b)
	case "ipv6_option", "ipv6_option_pad1_unsupported":
		v := new(protocol.Option)
		return v, v.UnmarshalBinary(b)
	case "ipv6_hbh", "ipv6_hbh_pad1_unsupported", "ipv6_hbh_hel255_unsupported", "ipv6_hbh_longopt_unsupported":
		v := new(protocol.HopByHopHeader)
		return v, v.UnmarshalBinary(b)
	case "ipv6_routing", "ipv6_routing_hel255_unsupported":
		v := new(protocol.RoutingHeader)
		return v, v.UnmarshalBinary(b)
	case "ipv6_fragment":
		v := new(protocol.FragmentHeader)
		return v, v.UnmarshalBinary(b)
	case "icmp":
		v := new(protocol.ICMP)
		return v, v.UnmarshalBinary(b)
	case "tcp":
		v := new(protocol.TCP)
		return v, v.UnmarshalBinary(b)
	case "udp":
		v := new(protocol.UDP)
		return v, v.UnmarshalBinary(b)
	case "igmp_v1v2":
		v := new(protocol.IGMPv1or2)
		return v, v.UnmarshalBinary(b)
	case "igmpv3_query":
		v := new(protocol.IGMPv3Query)
		return v, v.UnmarshalBinary(b)
	case "igmpv3_grouprecord":
		v := new(protocol.IGMPv3GroupRecord)
		return v, v.UnmarshalBinary(b)
	case "igmpv3_report":
		v := new(protocol.IGMPv3MembershipReport)
		return v, v.UnmarshalBinary(b)
	case "dhcp":
		v := new(protocol.DHCP)
		_, err := v.Write(b)
		return v, err
	case "dhcp_options":
		return protocol.DHCPParseOptions(b)
	case "lldp":
		v := new(protocol.LLDP)
		_, err := v.Write(b)
		return v, err
	case "lldp_chassis":
		v := new(protocol.ChassisTLV)
		_, err := v.Write(b)
		return v, err
	case "lldp_port":
		v := new(protocol.PortTLV)
		_, err := v.Write(b)
		return v, err
	case "lldp_ttl":
		v := new(protocol.TTLTLV)
		_, err := v.Write(b)
		return v, err
	}
	panic("hlib.RunDecoder: unknown kind " + kind)
}

// ---------------------------------------------------------------------------------------
// AppDemux: the stub controller application
// ---------------------------------------------------------------------------------------

type pktDemux struct {
	steps []string
	err   error
	depth int
}

// run records one decoder invocation; it returns false when demultiplexing must stop.
func (d *pktDemux) run(name string, b []byte) (any, bool) {
	d.steps = append(d.steps, name)
	v, err := RunDecoder(name, b)
	if err != nil {
		if d.err == nil {
			d.err = err
		}
		return v, false
	}
	return v, true
}

// pktMsgBytes returns the bytes behind a payload the library left undecoded.
func pktMsgBytes(m util.Message) []byte {
	switch v := m.(type) {
	case nil:
		return nil
	case *util.Buffer:
		return v.Bytes()
	}
	b, err := m.MarshalBinary()
	if err != nil {
		return nil
	}
	return b
}

// AppDemux looks at a delivered packet-in the way controller applications do and runs the
// second-stage decoders that the library does not call on its own.
func AppDemux(msg util.Message) (steps []string, err error) {
	pin, ok := msg.(*openflow13.PacketIn)
	if !ok || pin == nil {
		return nil, nil
	}
	d := &pktDemux{}
	d.ethernet(&pin.Data)
	return d.steps, d.err
}

func (d *pktDemux) ethernet(eth *protocol.Ethernet) {
	// A single 802.1Q tag was already removed by the library: Ethertype is the inner type.
	switch eth.Ethertype {
	case pkEthIPv4:
		if ip, ok := eth.Data.(*protocol.IPv4); ok {
			d.ipv4(ip)
		}
	case pkEthIPv6:
		if ip, ok := eth.Data.(*protocol.IPv6); ok {
			d.ipv6(ip)
		}
	case pkEthLLDP:
		d.lldp(pktMsgBytes(eth.Data))
	case pkEthRARP:
		d.run("arp", pktMsgBytes(eth.Data)) // RARP uses the ARP packet format
	}
}

// lldp decodes the LLDPDU as a whole and then TLV by TLV (the TTL TLV is only reachable
// that way). Each TLV decoder gets the rest of the LLDPDU, like LLDP.Write does it.
func (d *pktDemux) lldp(b []byte) {
	d.run("lldp", b) // even if that fails the TLVs are still looked at one by one
	for off := 0; off+2 <= len(b); {
		hdr := uint16(b[off])<<8 | uint16(b[off+1])
		typ, n := int(hdr>>9), int(hdr&0x1ff)
		if typ == 0 || off+2+n > len(b) {
			return
		}
		name := ""
		switch typ {
		case 1:
			name = "lldp_chassis"
		case 2:
			name = "lldp_port"
		case 3:
			name = "lldp_ttl"
		}
		if name != "" {
			if _, ok := d.run(name, b[off:]); !ok {
				return
			}
		}
		off += 2 + n
	}
}

func (d *pktDemux) ipv4(ip *protocol.IPv4) {
	if ip.FragmentOffset != 0 {
		return // not the start of an upper-layer header
	}
	d.depth++
	defer func() { d.depth-- }()
	if d.depth > 3 {
		return
	}
	// The library hands over everything up to the end of the frame; a careful application
	// trims Ethernet padding using the total length field.
	plen := int(ip.Length) - 4*int(ip.IHL)
	first := ip.Flags&1 != 0 // more fragments: only the beginning of the datagram is here
	switch ip.Protocol {
	case pkProtoUDP:
		if u, ok := ip.Data.(*protocol.UDP); ok && !first {
			d.udp(u, false)
		}
		return
	case pkProtoICMP:
		return // decoded by the library
	}
	b := pktMsgBytes(ip.Data)
	if plen >= 0 && plen < len(b) {
		b = b[:plen]
	}
	d.upper(ip.Protocol, b, false, first)
}

// upper runs the decoder for an upper-layer protocol found behind IPv4 or IPv6.
// auto = false: the library did not decode UDP / ICMP for us (we walked there ourselves).
func (d *pktDemux) upper(proto uint8, b []byte, v6 bool, firstFrag bool) {
	switch proto {
	case pkProtoTCP:
		d.run("tcp", b)
	case pkProtoIGMP:
		if !v6 && !firstFrag {
			d.igmp(b)
		}
	case pkProtoIPv6:
		if v, ok := d.run("ipv6", b); ok {
			d.ipv6(v.(*protocol.IPv6))
		}
	case pkProtoIPIP:
		if v, ok := d.run("ipv4", b); ok {
			d.ipv4(v.(*protocol.IPv4))
		}
	}
}

// igmp picks the decoder the way RFC 3376 section 7.1 tells to distinguish the versions.
func (d *pktDemux) igmp(b []byte) {
	if len(b) < 8 {
		return
	}
	switch b[0] {
	case 0x11:
		switch {
		case len(b) == 8:
			d.run("igmp_v1v2", b)
		case len(b) >= 12:
			d.run("igmpv3_query", b)
		}
		// other lengths: "MUST be silently ignored"
	case 0x12, 0x16, 0x17:
		d.run("igmp_v1v2", b)
	case 0x22:
		d.run("igmpv3_report", b)
	}
}

func (d *pktDemux) udp(u *protocol.UDP, v6 bool) {
	if v6 {
		return
	}
	isDHCP := func(p uint16) bool { return p == 67 || p == 68 }
	if !isDHCP(u.PortSrc) || !isDHCP(u.PortDst) {
		return
	}
	b := u.Data
	if n := int(u.Length) - 8; n >= 0 && n < len(b) {
		b = b[:n]
	}
	if _, ok := d.run("dhcp", b); !ok {
		return
	}
	if len(b) >= 240 {
		d.run("dhcp_options", b[240:])
	}
}

func (d *pktDemux) ipv6(ip *protocol.IPv6) {
	d.depth++
	defer func() { d.depth-- }()
	if d.depth > 3 {
		return
	}
	// follow the chain of the extension headers the library has decoded
	nh := ip.NextHeader
	extLen := 0
	seenH, seenR, seenF := false, false, false
	firstFrag := false
walk:
	for {
		switch {
		case nh == pkProtoHBH && ip.HbhHeader != nil && !seenH:
			seenH = true
			nh = ip.HbhHeader.NextHeader
			extLen += int(ip.HbhHeader.Len())
		case nh == pkProtoRouting && ip.RoutingHeader != nil && !seenR:
			seenR = true
			nh = ip.RoutingHeader.NextHeader
			extLen += int(ip.RoutingHeader.Len())
		case nh == pkProtoFrag && ip.FragmentHeader != nil && !seenF:
			seenF = true
			if ip.FragmentHeader.FragmentOffset != 0 {
				return
			}
			firstFrag = ip.FragmentHeader.MoreFragments
			nh = ip.FragmentHeader.NextHeader
			extLen += 8
		default:
			break walk
		}
	}
	switch nh {
	case pkProtoUDP, pkProtoICMPv6:
		if _, isBuf := ip.Data.(*util.Buffer); !isBuf {
			return // decoded by the library
		}
	}
	b := pktMsgBytes(ip.Data)
	if plen := int(ip.Length) - extLen; plen >= 0 && plen < len(b) {
		b = b[:plen]
	}
	// extension headers the library does not know: walk them with the standalone decoders
	for hops := 0; hops < 16; hops++ {
		switch nh {
		case pkProtoDstOpts: // same layout as the hop-by-hop options header
			v, ok := d.run("ipv6_hbh", b)
			if !ok {
				return
			}
			h := v.(*protocol.HopByHopHeader)
			if int(h.Len()) > len(b) || h.Len() == 0 {
				return
			}
			nh, b = h.NextHeader, b[h.Len():]
		case pkProtoRouting:
			v, ok := d.run("ipv6_routing", b)
			if !ok {
				return
			}
			h := v.(*protocol.RoutingHeader)
			if int(h.Len()) > len(b) || h.Len() == 0 {
				return
			}
			nh, b = h.NextHeader, b[h.Len():]
		case pkProtoFrag:
			v, ok := d.run("ipv6_fragment", b)
			if !ok {
				return
			}
			h := v.(*protocol.FragmentHeader)
			if h.FragmentOffset != 0 {
				return
			}
			firstFrag = h.MoreFragments
			nh, b = h.NextHeader, b[8:]
		case pkProtoAH: // no decoder in the library: skip it by hand
			if len(b) < 8 || (int(b[1])+2)*4 > len(b) {
				return
			}
			nh, b = b[0], b[(int(b[1])+2)*4:]
		case pkProtoUDP:
			if v, ok := d.run("udp", b); ok {
				d.udp(v.(*protocol.UDP), true)
			}
			return
		case pkProtoICMPv6:
			d.run("icmp", b)
			return
		default:
			d.upper(nh, b, true, firstFrag)
			return
		}
	}
}
