package hlib

// corpus_wire.go: an independent generator of well-formed OpenFlow 1.3 frames ("wire corpus").
//
// Nothing in this file calls an encoder of the library under test. Layouts follow the OpenFlow
// 1.3.5 specification, the ONF bundle extension (EXT-230) and the Open vSwitch Nicira extension
// headers (nicira-ext.h, ofp-actions.c, meta-flow.h).
//
// All identifiers of this file start with wire/Wire.

import (
	"fmt"

	"github.com/contiv/libOpenflow/simrt"
)

const (
	wireVersion   = 4
	wireMaxFrame  = 65535
	wireNXVendor  = 0x00002320 // Nicira
	wireONFVendor = 0x4f4e4600 // ONF
	wireNoBuffer  = 0xffffffff
)

// ofp_type
const (
	wireTHello          = 0
	wireTError          = 1
	wireTEchoReq        = 2
	wireTEchoRep        = 3
	wireTExperimenter   = 4
	wireTFeaturesReq    = 5
	wireTFeaturesRep    = 6
	wireTGetConfigReq   = 7
	wireTGetConfigRep   = 8
	wireTSetConfig      = 9
	wireTPacketIn       = 10
	wireTFlowRemoved    = 11
	wireTPortStatus     = 12
	wireTPacketOut      = 13
	wireTFlowMod        = 14
	wireTGroupMod       = 15
	wireTPortMod        = 16
	wireTTableMod       = 17
	wireTMultipartReq   = 18
	wireTMultipartRep   = 19
	wireTBarrierReq     = 20
	wireTBarrierRep     = 21
	wireTQueueGetCfgReq = 22
	wireTQueueGetCfgRep = 23
	wireTRoleReq        = 24
	wireTRoleRep        = 25
	wireTGetAsyncReq    = 26
	wireTGetAsyncRep    = 27
	wireTSetAsync       = 28
	wireTMeterMod       = 29
)

// wireGen carries the state of one frame generation.
type wireGen struct {
	r     *simrt.RNG
	xid   uint32
	hint  int // soft target for the total frame size (0 = natural small sizes)
	max   int // hard cap for the total frame size
	depth int // bundle nesting depth
	tags  []string
	// compat restricts the choice of actions, instructions and OXM fields to those the library
	// at the pinned commit gets through without losing its place in the frame (see wireCompat*).
	// Only the *_compat kinds set it; they produce a strict subset of what the full kinds produce.
	compat bool
}

// Elements that the library's decoders (pinned commit) walk over with a wrong length, so that
// everything behind them is mis-parsed. They are perfectly valid and the normal kinds use them
// like everything else; the *_compat kinds leave them out to offer large frames that get
// through Parse.
func wireCompatNoAct(k int) bool {
	switch k {
	case 1, 2, 3, 4, 9, 11, 15: // copy_ttl_out/in, set/dec_mpls_ttl, set_queue, set_nw_ttl, pop_pbb
		return true
	}
	return false
}

const wireCompatNoInstr = 6 // meter

// fields returns the OXM fields the library has a decoder for (minus the two flow-label fields
// in compat mode).
func (g *wireGen) fields() []*wireOXM {
	sup, _ := wireFields()
	if !g.compat {
		return sup
	}
	var out []*wireOXM
	for _, f := range sup {
		if f.name != "OXM_OF_IPV6_FLABEL" && f.name != "NXM_NX_IPV6_LABEL" {
			out = append(out, f)
		}
	}
	return out
}

func (g *wireGen) tag(t string) { g.tags = append(g.tags, t) }

// soft is the soft target for the total frame size, never above the hard cap.
func (g *wireGen) soft() int {
	s := g.hint
	if s < 0 {
		s = 0
	}
	if s > g.max {
		s = g.max
	}
	return s
}

func (g *wireGen) begin(typ uint8) *W {
	w := &W{}
	w.MU8(wireVersion, "of.version")
	w.MU8(typ, "of.type")
	w.MU16(0, "of.length")
	w.U32(g.xid)
	return w
}

func (g *wireGen) end(w *W) *W {
	w.Put16(2, uint16(w.Len()))
	return w
}

func (g *wireGen) u16() uint16 { return uint16(g.r.Uint64()) }
func (g *wireGen) u32() uint32 { return uint32(g.r.Uint64()) }
func (g *wireGen) u64() uint64 { return g.r.Uint64() }

// small counters look like real counters, not like noise
func (g *wireGen) counter() uint64 {
	switch g.r.Pick(5, 3, 1, 1) {
	case 0:
		return uint64(g.r.Intn(100000))
	case 1:
		return g.r.Uint64() >> 24
	case 2:
		return 0xffffffffffffffff // "counter unsupported"
	}
	return g.r.Uint64()
}

func (g *wireGen) port32() uint32 {
	switch g.r.Pick(70, 10, 20) {
	case 0:
		return uint32(g.r.Range(1, 1000))
	case 1:
		return uint32(g.r.Range(1, 0xffffff00))
	}
	return 0xfffffff8 + uint32(g.r.Intn(8))
}

func (g *wireGen) group32() uint32 {
	switch g.r.Pick(80, 10, 10) {
	case 0:
		return uint32(g.r.Range(0, 4000))
	case 1:
		return uint32(g.r.Range(0, 0xffffff00))
	}
	if g.r.Chance(0.5) {
		return 0xfffffffc
	}
	return 0xffffffff
}

func (g *wireGen) tableID() uint8 {
	if g.r.Chance(0.9) {
		return uint8(g.r.Intn(64))
	}
	return uint8(g.r.Intn(255))
}

func (g *wireGen) name(w *W, n int) {
	const letters = "abcdefghijklmnopqrstuvwxyz0123456789-_."
	l := g.r.Range(1, n-1)
	for i := 0; i < n; i++ {
		if i < l {
			w.U8(letters[g.r.Intn(len(letters))])
		} else {
			w.U8(0)
		}
	}
}

func wirePad8(w *W, start int) {
	for (w.Len()-start)%8 != 0 {
		w.U8(0)
	}
}

// ---------------------------------------------------------------------------------------------
// OXM / NXM fields

type wireOXM struct {
	name  string
	class uint16
	field uint8
	n     int    // value bytes; 0 = variable length (tun_metadata)
	mask  bool   // maskable
	bits  int    // number of significant low-order bits (0 = all)
	exp   uint32 // experimenter id (class 0xffff)
	sup   bool   // the library's DecodeMatchField has a value decoder for it
	rw    bool   // usable as destination of set_field / load
}

func wireFieldTable() []wireOXM {
	const B, N0, N1, X = 0x8000, 0x0000, 0x0001, 0xffff
	t := []wireOXM{
		// OpenFlow basic (OF 1.3.5 table 11/12)
		{"OXM_OF_IN_PORT", B, 0, 4, false, 0, 0, true, true},
		{"OXM_OF_IN_PHY_PORT", B, 1, 4, false, 0, 0, false, false},
		{"OXM_OF_METADATA", B, 2, 8, true, 0, 0, true, true},
		{"OXM_OF_ETH_DST", B, 3, 6, true, 0, 0, true, true},
		{"OXM_OF_ETH_SRC", B, 4, 6, true, 0, 0, true, true},
		{"OXM_OF_ETH_TYPE", B, 5, 2, false, 0, 0, true, false},
		{"OXM_OF_VLAN_VID", B, 6, 2, true, 13, 0, true, true},
		{"OXM_OF_VLAN_PCP", B, 7, 1, false, 3, 0, false, true},
		{"OXM_OF_IP_DSCP", B, 8, 1, false, 6, 0, true, true},
		{"OXM_OF_IP_ECN", B, 9, 1, false, 2, 0, false, true},
		{"OXM_OF_IP_PROTO", B, 10, 1, false, 0, 0, true, false},
		{"OXM_OF_IPV4_SRC", B, 11, 4, true, 0, 0, true, true},
		{"OXM_OF_IPV4_DST", B, 12, 4, true, 0, 0, true, true},
		{"OXM_OF_TCP_SRC", B, 13, 2, false, 0, 0, true, true},
		{"OXM_OF_TCP_DST", B, 14, 2, false, 0, 0, true, true},
		{"OXM_OF_UDP_SRC", B, 15, 2, false, 0, 0, true, true},
		{"OXM_OF_UDP_DST", B, 16, 2, false, 0, 0, true, true},
		{"OXM_OF_SCTP_SRC", B, 17, 2, false, 0, 0, true, true},
		{"OXM_OF_SCTP_DST", B, 18, 2, false, 0, 0, true, true},
		{"OXM_OF_ICMPV4_TYPE", B, 19, 1, false, 0, 0, true, true},
		{"OXM_OF_ICMPV4_CODE", B, 20, 1, false, 0, 0, true, true},
		{"OXM_OF_ARP_OP", B, 21, 2, false, 0, 0, true, true},
		{"OXM_OF_ARP_SPA", B, 22, 4, true, 0, 0, true, true},
		{"OXM_OF_ARP_TPA", B, 23, 4, true, 0, 0, true, true},
		{"OXM_OF_ARP_SHA", B, 24, 6, true, 0, 0, true, true},
		{"OXM_OF_ARP_THA", B, 25, 6, true, 0, 0, true, true},
		{"OXM_OF_IPV6_SRC", B, 26, 16, true, 0, 0, true, true},
		{"OXM_OF_IPV6_DST", B, 27, 16, true, 0, 0, true, true},
		{"OXM_OF_IPV6_FLABEL", B, 28, 4, true, 20, 0, true, true},
		{"OXM_OF_ICMPV6_TYPE", B, 29, 1, false, 0, 0, true, true},
		{"OXM_OF_ICMPV6_CODE", B, 30, 1, false, 0, 0, true, true},
		{"OXM_OF_IPV6_ND_TARGET", B, 31, 16, false, 0, 0, true, true},
		{"OXM_OF_IPV6_ND_SLL", B, 32, 6, false, 0, 0, true, true},
		{"OXM_OF_IPV6_ND_TLL", B, 33, 6, false, 0, 0, true, true},
		{"OXM_OF_MPLS_LABEL", B, 34, 4, false, 20, 0, true, true},
		{"OXM_OF_MPLS_TC", B, 35, 1, false, 3, 0, false, true},
		{"OXM_OF_MPLS_BOS", B, 36, 1, false, 1, 0, true, false},
		{"OXM_OF_PBB_ISID", B, 37, 3, true, 0, 0, false, true},
		{"OXM_OF_TUNNEL_ID", B, 38, 8, true, 0, 0, true, true},
		{"OXM_OF_IPV6_EXTHDR", B, 39, 2, true, 9, 0, false, false},
		// OF1.5 number that OVS also accepts in OF1.3 frames and the library decodes
		{"OXM_OF_TCP_FLAGS", B, 42, 2, true, 12, 0, true, false},

		// NXM_OF (class 0)
		{"NXM_OF_IN_PORT", N0, 0, 2, false, 0, 0, false, true},
		{"NXM_OF_ETH_DST", N0, 1, 6, true, 0, 0, false, true},
		{"NXM_OF_ETH_SRC", N0, 2, 6, true, 0, 0, false, true},
		{"NXM_OF_ETH_TYPE", N0, 3, 2, false, 0, 0, false, false},
		{"NXM_OF_VLAN_TCI", N0, 4, 2, true, 0, 0, false, true},
		{"NXM_OF_IP_TOS", N0, 5, 1, false, 0, 0, false, true},
		{"NXM_OF_IP_PROTO", N0, 6, 1, false, 0, 0, false, false},
		{"NXM_OF_IP_SRC", N0, 7, 4, true, 0, 0, false, true},
		{"NXM_OF_IP_DST", N0, 8, 4, true, 0, 0, false, true},
		{"NXM_OF_TCP_SRC", N0, 9, 2, true, 0, 0, false, true},
		{"NXM_OF_TCP_DST", N0, 10, 2, true, 0, 0, false, true},
		{"NXM_OF_UDP_SRC", N0, 11, 2, true, 0, 0, false, true},
		{"NXM_OF_UDP_DST", N0, 12, 2, true, 0, 0, false, true},
		{"NXM_OF_ICMP_TYPE", N0, 13, 1, false, 0, 0, false, true},
		{"NXM_OF_ICMP_CODE", N0, 14, 1, false, 0, 0, false, true},
		{"NXM_OF_ARP_OP", N0, 15, 2, false, 0, 0, false, true},
		{"NXM_OF_ARP_SPA", N0, 16, 4, true, 0, 0, false, true},
		{"NXM_OF_ARP_TPA", N0, 17, 4, true, 0, 0, false, true},
	}
	// NXM_NX (class 1), from OVS meta-flow.h
	for i := 0; i < 16; i++ {
		t = append(t, wireOXM{fmt.Sprintf("NXM_NX_REG%d", i), N1, uint8(i), 4, true, 0, 0, true, true})
	}
	t = append(t, []wireOXM{
		{"NXM_NX_TUN_ID", N1, 16, 8, true, 0, 0, false, true},
		{"NXM_NX_ARP_SHA", N1, 17, 6, true, 0, 0, true, true},
		{"NXM_NX_ARP_THA", N1, 18, 6, true, 0, 0, true, true},
		{"NXM_NX_IPV6_SRC", N1, 19, 16, true, 0, 0, true, true},
		{"NXM_NX_IPV6_DST", N1, 20, 16, true, 0, 0, true, true},
		{"NXM_NX_ICMPV6_TYPE", N1, 21, 1, false, 0, 0, true, true},
		{"NXM_NX_ICMPV6_CODE", N1, 22, 1, false, 0, 0, true, true},
		{"NXM_NX_ND_TARGET", N1, 23, 16, true, 0, 0, true, true},
		{"NXM_NX_ND_SLL", N1, 24, 6, true, 0, 0, true, true},
		{"NXM_NX_ND_TLL", N1, 25, 6, true, 0, 0, true, true},
		{"NXM_NX_IP_FRAG", N1, 26, 1, true, 2, 0, false, false},
		{"NXM_NX_IPV6_LABEL", N1, 27, 4, true, 20, 0, true, true},
		{"NXM_NX_IP_ECN", N1, 28, 1, false, 2, 0, false, true},
		{"NXM_NX_IP_TTL", N1, 29, 1, false, 0, 0, false, true},
		{"NXM_NX_MPLS_TTL", N1, 30, 1, false, 0, 0, false, true},
		{"NXM_NX_TUN_IPV4_SRC", N1, 31, 4, true, 0, 0, true, true},
		{"NXM_NX_TUN_IPV4_DST", N1, 32, 4, true, 0, 0, true, true},
		{"NXM_NX_PKT_MARK", N1, 33, 4, true, 0, 0, true, true},
		{"NXM_NX_TCP_FLAGS", N1, 34, 2, true, 12, 0, false, false},
		{"NXM_NX_DP_HASH", N1, 35, 4, true, 0, 0, false, false},
		{"NXM_NX_RECIRC_ID", N1, 36, 4, false, 0, 0, false, false},
		{"NXM_NX_CONJ_ID", N1, 37, 4, false, 0, 0, true, false},
		{"NXM_NX_TUN_GBP_ID", N1, 38, 2, true, 0, 0, false, true},
		{"NXM_NX_TUN_GBP_FLAGS", N1, 39, 1, true, 0, 0, false, true},
	}...)
	for i := 0; i < 64; i++ {
		t = append(t, wireOXM{fmt.Sprintf("NXM_NX_TUN_METADATA%d", i), N1, uint8(40 + i), 0, true, 0, 0, i < 8, true})
	}
	t = append(t, []wireOXM{
		{"NXM_NX_TUN_FLAGS", N1, 104, 2, true, 1, 0, false, true},
		{"NXM_NX_CT_STATE", N1, 105, 4, true, 8, 0, true, false},
		{"NXM_NX_CT_ZONE", N1, 106, 2, false, 0, 0, true, false},
		{"NXM_NX_CT_MARK", N1, 107, 4, true, 0, 0, true, true},
		{"NXM_NX_CT_LABEL", N1, 108, 16, true, 0, 0, true, true},
		{"NXM_NX_TUN_IPV6_SRC", N1, 109, 16, true, 0, 0, true, true},
		{"NXM_NX_TUN_IPV6_DST", N1, 110, 16, true, 0, 0, true, true},
		{"NXM_NX_XXREG0", N1, 111, 16, true, 0, 0, true, true},
		{"NXM_NX_XXREG1", N1, 112, 16, true, 0, 0, true, true},
		{"NXM_NX_XXREG2", N1, 113, 16, true, 0, 0, true, true},
		{"NXM_NX_XXREG3", N1, 114, 16, true, 0, 0, true, true},
		{"NXM_NX_CT_NW_PROTO", N1, 119, 1, false, 0, 0, true, false},
		{"NXM_NX_CT_NW_SRC", N1, 120, 4, true, 0, 0, true, false},
		{"NXM_NX_CT_NW_DST", N1, 121, 4, true, 0, 0, true, false},
		{"NXM_NX_CT_IPV6_SRC", N1, 122, 16, true, 0, 0, true, false},
		{"NXM_NX_CT_IPV6_DST", N1, 123, 16, true, 0, 0, true, false},
		{"NXM_NX_CT_TP_SRC", N1, 124, 2, true, 0, 0, true, false},
		{"NXM_NX_CT_TP_DST", N1, 125, 2, true, 0, 0, true, false},
		// experimenter class, ONF extensions for OF1.3 (EXT-109, EXT-233)
		{"ONFOXM_ET_TCP_FLAGS", X, 42, 2, true, 12, wireONFVendor, true, false},
		{"ONFOXM_ET_ACTSET_OUTPUT", X, 43, 4, false, 0, wireONFVendor, true, false},
		// experimenter class, Nicira
		{"NXOXM_ET_DP_HASH", X, 0, 4, true, 0, wireNXVendor, false, false},
	}...)
	return t
}

// wireFields returns (supported-by-library, valid-but-unsupported) field lists in table order.
func wireFields() (sup, unsup []*wireOXM) {
	t := wireFieldTable()
	for i := range t {
		if t[i].sup {
			sup = append(sup, &t[i])
		} else {
			unsup = append(unsup, &t[i])
		}
	}
	return
}

func wireFieldByName(t []*wireOXM, name string) *wireOXM {
	for _, f := range t {
		if f.name == name {
			return f
		}
	}
	return nil
}

// nxmHeader is the 32-bit NXM/OXM header of a field without mask (used by reg_move, learn, ...).
func (f *wireOXM) header(n int) uint32 {
	return uint32(f.class)<<16 | uint32(f.field)<<9 | uint32(n&0xff)
}

func (f *wireOXM) width(g *wireGen) int {
	if f.n != 0 {
		return f.n
	}
	return 4 * g.r.Range(1, 31) // tun_metadata: 4..124 bytes
}

// clip zeroes the bits above f.bits in the big-endian value b.
func (f *wireOXM) clip(b []byte) {
	if f.bits == 0 {
		return
	}
	keep := f.bits
	for i := len(b) - 1; i >= 0; i-- {
		switch {
		case keep >= 8:
			keep -= 8
		case keep > 0:
			b[i] &= byte(1<<uint(keep)) - 1
			keep = 0
		default:
			b[i] = 0
		}
	}
}

func (g *wireGen) oxmValue(f *wireOXM, n int) []byte {
	b := g.r.Bytes(n)
	switch {
	case f.class == 0x8000 && (f.field == 0 || f.field == 1):
		p := g.port32()
		b[0], b[1], b[2], b[3] = byte(p>>24), byte(p>>16), byte(p>>8), byte(p)
	case f.class == 0x8000 && f.field == 6: // vlan_vid: OFPVID_NONE or OFPVID_PRESENT|vid
		if g.r.Chance(0.15) {
			b[0], b[1] = 0, 0
		} else {
			b[0] = 0x10 | b[0]&0x0f
		}
	case f.class == 0x8000 && f.field == 5 || f.class == 0 && f.field == 3:
		et := []uint16{0x0800, 0x0806, 0x86dd, 0x8847, 0x8100, 0x88cc, 0x88e7}[g.r.Intn(7)]
		b[0], b[1] = byte(et>>8), byte(et)
	case f.class == 0x8000 && f.field == 10 || f.class == 0 && f.field == 6 || f.class == 1 && f.field == 119:
		b[0] = []byte{1, 2, 6, 17, 58, 132}[g.r.Intn(6)]
	case f.class == 0xffff && f.field == 43:
		p := g.port32()
		b[0], b[1], b[2], b[3] = byte(p>>24), byte(p>>16), byte(p>>8), byte(p)
	}
	f.clip(b)
	return b
}

func (g *wireGen) oxmMask(f *wireOXM, n int) []byte {
	m := make([]byte, n)
	switch g.r.Pick(4, 3, 2, 1) {
	case 0: // prefix mask
		p := g.r.Range(1, n*8-1)
		for i := 0; i < p; i++ {
			m[i/8] |= 0x80 >> uint(i%8)
		}
	case 1:
		m = g.r.Bytes(n)
	case 2: // single bit
		i := g.r.Intn(n * 8)
		m[i/8] |= 0x80 >> uint(i%8)
	default: // low bits
		p := g.r.Range(1, n*8-1)
		for i := 0; i < p; i++ {
			j := n*8 - 1 - i
			m[j/8] |= 0x80 >> uint(j%8)
		}
	}
	f.clip(m)
	nz := false
	for _, x := range m {
		nz = nz || x != 0
	}
	if !nz {
		m[n-1] |= 1
	}
	return m
}

// oxm appends one OXM TLV.
func (g *wireGen) oxm(w *W, f *wireOXM, masked bool) {
	masked = masked && f.mask
	n := f.width(g)
	l := n
	if masked {
		l += n
	}
	if f.class == 0xffff {
		l += 4
	}
	hm := uint8(0)
	if masked {
		hm = 1
	}
	w.Mark(4, "oxm.header")
	w.U16(f.class)
	w.U8(f.field<<1 | hm)
	w.MU8(uint8(l), "oxm.length")
	if f.class == 0xffff {
		w.MU32(f.exp, "oxm.experimenter")
	}
	v := g.oxmValue(f, n)
	if masked {
		m := g.oxmMask(f, n)
		for i := range v {
			v[i] &= m[i]
		}
		w.Bytes(v)
		w.Bytes(m)
	} else {
		w.Bytes(v)
	}
	g.tag(fmt.Sprintf("oxm:%04x/%d", f.class, f.field))
	if masked {
		g.tag(fmt.Sprintf("oxm:%04x/%d/m", f.class, f.field))
	}
}

// match appends an ofp_match (OFPMT_OXM) with distinct fields drawn from pool, padded to 8
// bytes. nat is the natural number of fields, soft/room are sizes of the match itself.
func (g *wireGen) match(w *W, nat, soft, room int, pool []*wireOXM) {
	start := w.Len()
	w.MU16(1, "match.type")
	w.MU16(0, "match.length")
	idx := make([]int, len(pool))
	for i := range idx {
		idx[i] = i
	}
	n := 0
	for n < len(idx) && (n < nat || w.Len()-start < soft) {
		j := n + g.r.Intn(len(idx)-n)
		idx[n], idx[j] = idx[j], idx[n]
		f := pool[idx[n]]
		n++
		t := &W{}
		tl := len(g.tags)
		g.oxm(t, f, g.r.Chance(0.4))
		if w.Len()-start+t.Len()+8 > room || w.Len()-start+t.Len() > 65000 {
			g.tags = g.tags[:tl]
			break
		}
		w.Append(t)
	}
	w.Put16(start+2, uint16(w.Len()-start))
	wirePad8(w, start)
}

// ---------------------------------------------------------------------------------------------
// Actions

var wireActNames = []string{
	"output", "copy_ttl_out", "copy_ttl_in", "set_mpls_ttl", "dec_mpls_ttl", "push_vlan",
	"pop_vlan", "push_mpls", "pop_mpls", "set_queue", "group", "set_nw_ttl", "dec_nw_ttl",
	"set_field", "push_pbb", "pop_pbb",
	"nx_resubmit", "nx_resubmit_table", "nx_ct_resubmit", "nx_reg_move", "nx_reg_load",
	"nx_reg_load2", "nx_note", "nx_output_reg", "nx_output_reg2", "nx_learn", "nx_dec_ttl",
	"nx_controller", "nx_dec_ttl_cnt_ids", "nx_conjunction", "nx_ct", "nx_ct_clear", "nx_nat",
}

const (
	wireActNAT   = 32
	wireActCT    = 30
	wireActCount = 33
)

// ofp_action_type values of the 16 standard actions, indexed like wireActNames
var wireActTypes = []uint16{0, 11, 12, 15, 16, 17, 18, 19, 20, 21, 22, 23, 24, 25, 26, 27}

func (g *wireGen) actHead(a *W, typ uint16) {
	a.MU16(typ, "action.type")
	a.MU16(0, "action.len")
}

func (g *wireGen) nxHead(a *W, subtype uint16) {
	a.MU16(0xffff, "action.type")
	a.MU16(0, "action.len")
	a.MU32(wireNXVendor, "vendor.id")
	a.MU16(subtype, "nx.subtype")
}

// fieldRef picks a field that can be named by a plain 4-byte NXM header (fixed width, no
// experimenter id).
func (g *wireGen) fieldRef(writable bool) *wireOXM {
	t := wireFieldTable()
	for {
		f := &t[g.r.Intn(len(t))]
		if f.class == 0xffff || f.n == 0 || (writable && !f.rw) {
			continue
		}
		return f
	}
}

func (g *wireGen) regRef() *wireOXM {
	t := wireFieldTable()
	for i := range t {
		if t[i].name == "NXM_NX_REG0" {
			return &t[i+g.r.Intn(16)]
		}
	}
	return &t[0]
}

func (f *wireOXM) bitWidth() int {
	if f.bits != 0 {
		return f.bits
	}
	return f.n * 8
}

// learnSpec appends one nx flow_mod_spec of the given header kind (0..4).
func (g *wireGen) learnSpec(a *W, kind int) {
	const (
		srcField = 0 << 13
		srcImm   = 1 << 13
		dstMatch = 0 << 11
		dstLoad  = 1 << 11
		dstOut   = 2 << 11
	)
	dst := g.fieldRef(kind == 2 || kind == 3)
	src := g.fieldRef(false)
	max := dst.bitWidth()
	if kind == 4 {
		max = src.bitWidth()
	} else if (kind == 0 || kind == 2) && src.bitWidth() < max {
		max = src.bitWidth()
	}
	if kind == 4 && max > 16 {
		max = 16
	}
	nb := g.r.Range(1, max)
	if g.r.Chance(0.5) {
		nb = max
	}
	hdr := uint16(nb)
	switch kind {
	case 0:
		hdr |= srcField | dstMatch
	case 1:
		hdr |= srcImm | dstMatch
	case 2:
		hdr |= srcField | dstLoad
	case 3:
		hdr |= srcImm | dstLoad
	case 4:
		hdr |= srcField | dstOut
	}
	a.MU16(hdr, "learn.spec")
	if kind == 1 || kind == 3 {
		nbytes := 2 * ((nb + 15) / 16)
		v := g.r.Bytes(nbytes)
		// value must fit in nb bits
		keep := nb
		for i := nbytes - 1; i >= 0; i-- {
			switch {
			case keep >= 8:
				keep -= 8
			case keep > 0:
				v[i] &= byte(1<<uint(keep)) - 1
				keep = 0
			default:
				v[i] = 0
			}
		}
		a.Bytes(v)
	} else {
		a.MU32(src.header(src.n), "oxm.header")
		a.U16(uint16(g.r.Range(0, src.bitWidth()-nb)))
	}
	if kind != 4 {
		a.MU32(dst.header(dst.n), "oxm.header")
		a.U16(uint16(g.r.Range(0, dst.bitWidth()-nb)))
	}
}

// action builds one action of at most room bytes (nil if it does not fit). soft is a hint for
// how many bytes the caller would still like to fill. inCT selects the action set allowed
// inside a conntrack action.
func (g *wireGen) action(room, soft int, inCT bool, depth int) *W {
	if room < 8 {
		return nil
	}
	var k int
	if inCT {
		// nat, set_field/reg_load to ct_mark/ct_label, rarely a nested ct
		k = []int{wireActNAT, 13, 20, 21, wireActCT}[g.r.Pick(40, 20, 20, 15, 5)]
		if k == wireActCT && depth >= 2 {
			k = wireActNAT
		}
	} else {
		k = g.r.Intn(wireActCount - 1) // everything but nat
		for g.compat && wireCompatNoAct(k) {
			k = g.r.Intn(wireActCount - 1)
		}
	}
	a := &W{}
	tl := len(g.tags)
	g.tag("act:" + wireActNames[k])
	sup := g.fields()
	switch k {
	case 0: // output
		g.actHead(a, 0)
		p := g.port32()
		a.U32(p)
		if p == 0xfffffffd {
			a.U16([]uint16{0, 128, 0xffe5, 0xffff}[g.r.Intn(4)])
		} else {
			a.U16(0)
		}
		a.Zero(6)
	case 1, 2, 4, 6, 12, 15: // header-only actions: 4 bytes of padding
		g.actHead(a, wireActTypes[k])
		a.Zero(4)
	case 3, 11: // set_mpls_ttl, set_nw_ttl
		g.actHead(a, wireActTypes[k])
		a.U8(uint8(g.r.Intn(256)))
		a.Zero(3)
	case 5: // push_vlan
		g.actHead(a, 17)
		a.U16([]uint16{0x8100, 0x88a8}[g.r.Intn(2)])
		a.Zero(2)
	case 7: // push_mpls
		g.actHead(a, 19)
		a.U16([]uint16{0x8847, 0x8848}[g.r.Intn(2)])
		a.Zero(2)
	case 8: // pop_mpls
		g.actHead(a, 20)
		a.U16([]uint16{0x0800, 0x86dd, 0x8847, 0x0806}[g.r.Intn(4)])
		a.Zero(2)
	case 14: // push_pbb
		g.actHead(a, 26)
		a.U16(0x88e7)
		a.Zero(2)
	case 9: // set_queue
		g.actHead(a, 21)
		a.U32(uint32(g.r.Intn(16)))
	case 10: // group
		g.actHead(a, 22)
		a.U32(uint32(g.r.Range(0, 4000)))
	case 13: // set_field
		g.actHead(a, 25)
		var f *wireOXM
		if inCT {
			f = wireFieldByName(sup, []string{"NXM_NX_CT_MARK", "NXM_NX_CT_LABEL"}[g.r.Intn(2)])
		} else {
			for f == nil || !f.rw {
				f = sup[g.r.Intn(len(sup))]
			}
		}
		g.oxm(a, f, false)
		wirePad8(a, 0)
	case 16: // NXAST_RESUBMIT: uint16 in_port argument, 4 bytes of padding
		g.nxHead(a, 1)
		a.U16(g.port16())
		a.Zero(4)
	case 17, 18: // NXAST_RESUBMIT_TABLE / NXAST_CT_RESUBMIT
		g.nxHead(a, []uint16{14, 44}[k-17])
		a.U16(g.port16())
		if g.r.Chance(0.2) {
			a.U8(255)
		} else {
			a.U8(g.tableID())
		}
		a.Zero(3)
	case 19: // NXAST_REG_MOVE
		g.nxHead(a, 6)
		src, dst := g.fieldRef(false), g.fieldRef(true)
		nb := src.bitWidth()
		if dst.bitWidth() < nb {
			nb = dst.bitWidth()
		}
		nb = g.r.Range(1, nb)
		a.U16(uint16(nb))
		a.U16(uint16(g.r.Range(0, src.bitWidth()-nb)))
		a.U16(uint16(g.r.Range(0, dst.bitWidth()-nb)))
		a.MU32(src.header(src.n), "oxm.header")
		a.MU32(dst.header(dst.n), "oxm.header")
	case 20: // NXAST_REG_LOAD
		g.nxHead(a, 7)
		var dst *wireOXM
		if inCT {
			dst = wireFieldByName(sup, []string{"NXM_NX_CT_MARK", "NXM_NX_CT_LABEL"}[g.r.Intn(2)])
		} else {
			dst = g.fieldRef(true)
		}
		max := dst.bitWidth()
		if max > 64 {
			max = 64
		}
		nb := g.r.Range(1, max)
		ofs := g.r.Range(0, dst.bitWidth()-nb)
		a.MU16(uint16(ofs<<6|(nb-1)), "nx.ofs_nbits")
		a.MU32(dst.header(dst.n), "oxm.header")
		v := g.u64()
		if nb < 64 {
			v &= 1<<uint(nb) - 1
		}
		a.U64(v)
	case 21: // NXAST_REG_LOAD2: one OXM entry, zero padded
		g.nxHead(a, 33)
		var f *wireOXM
		if inCT {
			f = wireFieldByName(sup, []string{"NXM_NX_CT_MARK", "NXM_NX_CT_LABEL"}[g.r.Intn(2)])
		} else {
			for f == nil || !f.rw {
				f = sup[g.r.Intn(len(sup))]
			}
		}
		g.oxm(a, f, g.r.Chance(0.3))
		wirePad8(a, 0)
	case 22: // NXAST_NOTE
		g.nxHead(a, 8)
		n := 6 + 8*g.r.Intn(4)
		if soft > 64 && g.r.Chance(0.3) {
			n = 6 + 8*g.r.Intn(soft/16+1)
		}
		if 10+n > room {
			n = 6
		}
		a.Bytes(g.r.Bytes(n))
	case 23: // NXAST_OUTPUT_REG
		g.nxHead(a, 15)
		src := g.regRef()
		nb := g.r.Range(1, 32)
		a.MU16(uint16(g.r.Range(0, 32-nb)<<6|(nb-1)), "nx.ofs_nbits")
		a.MU32(src.header(4), "oxm.header")
		a.U16([]uint16{0, 128, 0xffff}[g.r.Intn(3)])
		a.Zero(6)
	case 24: // NXAST_OUTPUT_REG2: ofs_nbits, max_len, src header, zero padding up to 24 bytes
		g.nxHead(a, 32)
		src := g.regRef()
		nb := g.r.Range(1, 32)
		a.MU16(uint16(g.r.Range(0, 32-nb)<<6|(nb-1)), "nx.ofs_nbits")
		a.U16([]uint16{0, 128, 0xffff}[g.r.Intn(3)])
		a.MU32(src.header(4), "oxm.header")
		a.Zero(6)
	case 25: // NXAST_LEARN
		g.nxHead(a, 16)
		a.U16(uint16(g.r.Intn(600)))
		a.U16(uint16(g.r.Intn(600)))
		a.U16(g.u16())
		a.U64(g.u64())
		a.U16(uint16(g.r.Intn(4)))
		a.U8(g.tableID())
		a.U8(0)
		a.U16(uint16(g.r.Intn(60)))
		a.U16(uint16(g.r.Intn(60)))
		n := g.r.Range(0, 6)
		if soft > 200 && g.r.Chance(0.3) {
			n = g.r.Range(6, soft/12)
		}
		for i := 0; i < n && a.Len()+24 <= room; i++ {
			kind := g.r.Intn(5)
			g.tag(fmt.Sprintf("learn_spec:%d", kind))
			g.learnSpec(a, kind)
		}
		wirePad8(a, 0)
	case 26: // NXAST_DEC_TTL
		g.nxHead(a, 18)
		a.Zero(6)
	case 27: // NXAST_CONTROLLER
		g.nxHead(a, 20)
		a.U16([]uint16{0, 128, 0xffff}[g.r.Intn(3)])
		a.U16(uint16(g.r.Intn(8)))
		a.U8(uint8(g.r.Intn(3)))
		a.U8(0)
	case 28: // NXAST_DEC_TTL_CNT_IDS
		g.nxHead(a, 21)
		n := g.r.Range(0, 5)
		if 16+8*((2*n+7)/8) > room {
			n = 0
		}
		a.MU16(uint16(n), "nx.n_controllers")
		a.Zero(4)
		for i := 0; i < n; i++ {
			a.U16(uint16(g.r.Intn(16)))
		}
		wirePad8(a, 0)
	case 29: // NXAST_CONJUNCTION
		g.nxHead(a, 34)
		nc := g.r.Range(2, 8)
		a.U8(uint8(g.r.Intn(nc)))
		a.MU8(uint8(nc), "nx.n_clauses")
		a.U32(g.u32())
	case wireActCT: // NXAST_CT
		g.nxHead(a, 35)
		fl := uint16(g.r.Intn(2))
		if fl == 1 && g.r.Chance(0.3) {
			fl |= 2
		}
		a.U16(fl)
		if g.r.Chance(0.5) {
			g.tag("ct:zone_imm")
			a.U32(0)
			a.U16(g.u16())
		} else {
			g.tag("ct:zone_range")
			src := g.regRef()
			a.MU32(src.header(4), "oxm.header")
			a.MU16(uint16(g.r.Range(0, 16)<<6|15), "nx.ofs_nbits")
		}
		if g.r.Chance(0.3) {
			a.U8(0xff)
		} else {
			a.U8(g.tableID())
		}
		a.Zero(3)
		a.U16([]uint16{0, 0, 21, 69}[g.r.Intn(4)])
		if room-24 >= 16 && g.r.Chance(0.7) {
			s := 0
			if soft > 200 && g.r.Chance(0.2) {
				s = soft / 4
			}
			in := g.actionList(g.r.Range(1, 3), s, room-24, true, depth+1)
			if in.Len() > 0 {
				g.tag("ct:nested")
			}
			a.Append(in)
		}
	case 31: // NXAST_CT_CLEAR
		g.nxHead(a, 43)
		a.Zero(6)
	case wireActNAT: // NXAST_NAT
		g.nxHead(a, 36)
		a.Zero(2)
		fl := uint16(1 << uint(g.r.Intn(2)))
		if g.r.Chance(0.3) {
			fl |= 4
		}
		if g.r.Chance(0.3) {
			fl |= 8 << uint(g.r.Intn(2))
		}
		if g.r.Chance(0.1) {
			fl = 0 // plain "nat" (apply existing mapping)
		}
		a.U16(fl)
		var rp uint16
		if g.r.Chance(0.5) {
			rp = uint16(g.r.Intn(64)) // every combination of the six range-present bits
		} else {
			// combinations OVS itself produces: one address family, max only with min
			switch g.r.Intn(3) {
			case 0:
				rp = 1 | uint16(g.r.Intn(2))<<1
			case 1:
				rp = 4 | uint16(g.r.Intn(2))<<3
			}
			if g.r.Chance(0.5) {
				rp |= 16 | uint16(g.r.Intn(2))<<5
			}
		}
		if fl == 0 {
			rp = 0
		}
		if rp&3 == 2 || rp&12 == 8 || rp&48 == 32 || (rp&3 != 0 && rp&12 != 0) {
			g.tag("nat:combo_ovs_rejects")
		}
		g.tag(fmt.Sprintf("nat:rp=%02x", rp))
		a.MU16(rp, "nx.nat_range_present")
		sizes := []int{4, 4, 16, 16, 2, 2}
		for i, s := range sizes {
			if rp&(1<<uint(i)) != 0 {
				a.Bytes(g.r.Bytes(s))
			}
		}
		wirePad8(a, 0)
	}
	if a.Len() > room || a.Len()%8 != 0 {
		g.tags = g.tags[:tl]
		return nil
	}
	a.Put16(2, uint16(a.Len()))
	return a
}

func (g *wireGen) port16() uint16 {
	if g.r.Chance(0.3) {
		return 0xfff8 // OFPP_IN_PORT
	}
	return uint16(g.r.Range(1, 1000))
}

// actionList builds a list of nat actions, more while the list is shorter than soft bytes,
// never longer than room bytes.
func (g *wireGen) actionList(nat, soft, room int, inCT bool, depth int) *W {
	w := &W{}
	n, fails := 0, 0
	for (n < nat || w.Len() < soft) && fails < 4 && room-w.Len() >= 8 {
		a := g.action(room-w.Len(), soft-w.Len(), inCT, depth)
		if a == nil {
			fails++
			continue
		}
		w.Append(a)
		n++
	}
	return w
}

// ---------------------------------------------------------------------------------------------
// Instructions

var wireInstrNames = []string{"", "goto_table", "write_metadata", "write_actions", "apply_actions", "clear_actions", "meter"}

// instructions builds nat distinct instructions (more action bytes while shorter than soft),
// at most room bytes.
func (g *wireGen) instructions(nat, soft, room int) *W {
	w := &W{}
	types := []int{1, 2, 3, 4, 5, 6}
	if g.compat {
		types = types[:wireCompatNoInstr-1]
	}
	if nat > len(types) {
		nat = len(types)
	}
	if soft > 0 && nat == 0 {
		nat = 1
	}
	// choose nat distinct types in random order
	for i := 0; i < nat; i++ {
		j := i + g.r.Intn(len(types)-i)
		types[i], types[j] = types[j], types[i]
	}
	types = types[:nat]
	nAct := 0
	for _, t := range types {
		if t == 3 || t == 4 {
			nAct++
		}
	}
	if soft > 100 && nAct == 0 && nat > 0 {
		types[g.r.Intn(nat)] = 4
		nAct = 1
	}
	for _, t := range types {
		left := room - w.Len()
		if left < 24 {
			break
		}
		start := w.Len()
		g.tag("instr:" + wireInstrNames[t])
		w.MU16(uint16(t), "instr.type")
		w.MU16(0, "instr.len")
		switch t {
		case 1:
			w.U8(g.tableID())
			w.Zero(3)
		case 2:
			w.Zero(4)
			m := g.u64()
			w.U64(g.u64() & m)
			w.U64(m)
		case 3, 4:
			w.Zero(4)
			s := 0
			if soft > w.Len() {
				s = (soft - w.Len()) / nAct
			}
			nAct--
			if nAct < 1 {
				nAct = 1
			}
			w.Append(g.actionList(g.r.Range(0, 4), s, left-8, false, 0))
		case 5:
			w.Zero(4)
		case 6:
			w.U32(uint32(g.r.Range(1, 64)))
		}
		w.Put16(start+2, uint16(w.Len()-start))
	}
	return w
}

// ---------------------------------------------------------------------------------------------
// Simple messages

func (g *wireGen) bodyBytes(w *W, natMax int) {
	n := g.r.Range(0, natMax)
	if g.soft() > w.Len() {
		n = g.soft() - w.Len()
	}
	if w.Len()+n > g.max {
		n = g.max - w.Len()
	}
	w.Bytes(g.r.Bytes(n))
}

func (g *wireGen) genHeaderOnly(typ uint8) *W { return g.end(g.begin(typ)) }

func (g *wireGen) genEcho(typ uint8) *W {
	w := g.begin(typ)
	g.bodyBytes(w, 32)
	return g.end(w)
}

func (g *wireGen) genHello(unknown bool) *W {
	w := g.begin(wireTHello)
	n := g.r.Range(0, 3)
	if unknown && n == 0 {
		n = 1
	}
	unk := -1
	if unknown {
		unk = g.r.Intn(n)
	}
	for i := 0; i < n; i++ {
		start := w.Len()
		if i == unk {
			// an element type this version of the protocol does not define: receivers must skip it
			g.tag("hello:unknown_elem")
			w.MU16(uint16(g.r.Range(2, 0xfffe)), "hello.elem.type")
			w.MU16(0, "hello.elem.len")
			w.Bytes(g.r.Bytes(g.r.Range(0, 12)))
		} else {
			g.tag("hello:bitmap")
			w.MU16(1, "hello.elem.type")
			w.MU16(0, "hello.elem.len")
			nb := g.r.Pick(0, 8, 2, 1, 1) // 1..4 bitmap words
			for j := 0; j < nb; j++ {
				if j == 0 {
					w.U32(1<<4 | uint32(g.r.Intn(64))&^1)
				} else {
					w.U32(g.u32())
				}
			}
		}
		w.Put16(start+2, uint16(w.Len()-start))
		wirePad8(w, start)
	}
	if n > 1 {
		g.tag("hello:multi")
	}
	return g.end(w)
}

// number of codes defined for each ofp_error_type (OF 1.3.5)
var wireErrCodes = []int{2, 14, 16, 9, 12, 8, 15, 5, 3, 3, 3, 3, 12, 6}

func (g *wireGen) genError(exp bool) *W {
	w := g.begin(wireTError)
	if exp {
		w.MU16(0xffff, "error.type")
		if g.r.Chance(0.5) {
			w.MU16(uint16(2300+g.r.Intn(16)), "error.exp_type") // ONF bundle error codes
			w.MU32(wireONFVendor, "vendor.id")
		} else {
			w.MU16(uint16(g.r.Intn(64)), "error.exp_type")
			w.MU32(wireNXVendor, "vendor.id")
		}
	} else {
		t := g.r.Intn(14)
		w.MU16(uint16(t), "error.type")
		w.MU16(uint16(g.r.Intn(wireErrCodes[t])), "error.code")
	}
	g.bodyBytes(w, 64)
	return g.end(w)
}

func (g *wireGen) genFeaturesReply() *W {
	w := g.begin(wireTFeaturesRep)
	w.U64(g.u64() >> 16)
	w.U32(uint32(g.r.Intn(1024)))
	w.MU8(uint8(g.r.Range(1, 254)), "features.n_tables")
	w.U8(uint8(g.r.Intn(4)))
	w.Zero(2)
	w.U32(uint32(g.r.Intn(512)) &^ 0x90)
	w.U32(0)
	return g.end(w)
}

func (g *wireGen) genSwitchConfig(typ uint8) *W {
	w := g.begin(typ)
	w.U16(uint16(g.r.Intn(3))) // OFPC_FRAG_NORMAL / DROP / REASM
	w.U16([]uint16{0, 128, 0xffe5, 0xffff}[g.r.Intn(4)])
	return g.end(w)
}

// port appends a struct ofp_port (64 bytes).
func (g *wireGen) port(w *W) {
	w.U32(g.port32())
	w.Zero(4)
	w.Bytes(g.r.Bytes(6))
	w.Zero(2)
	g.name(w, 16)
	w.U32(uint32(g.r.Intn(128)) & 0x65)
	w.U32(uint32(g.r.Intn(8)))
	for i := 0; i < 4; i++ {
		w.U32(uint32(g.r.Intn(1 << 16)))
	}
	w.U32(uint32(g.r.Intn(100000000)))
	w.U32(uint32(g.r.Intn(100000000)))
}

func (g *wireGen) genPortStatus() *W {
	w := g.begin(wireTPortStatus)
	w.MU8(uint8(g.r.Intn(3)), "port_status.reason")
	w.Zero(7)
	g.port(w)
	return g.end(w)
}

func (g *wireGen) genPacketIn(trunc bool) *W {
	sup, _ := wireFields()
	w := g.begin(wireTPacketIn)
	buf := uint32(wireNoBuffer)
	if trunc || g.r.Chance(0.3) {
		buf = uint32(g.r.Intn(256))
	}
	w.U32(buf)
	tlOff := w.Len()
	w.MU16(0, "packet_in.total_len")
	w.MU8(uint8(g.r.Intn(3)), "packet_in.reason")
	w.U8(g.tableID())
	w.U64(g.u64())
	g.match(w, g.r.Range(0, 8), 0, 2400, sup)
	w.Zero(2)
	room := g.max - w.Len()
	ph := g.soft() - w.Len()
	if ph < 0 {
		ph = 0
	}
	if ph > room {
		ph = room
	}
	pkt, marks := PacketSource(g.r, ph)
	total := len(pkt)
	cut := total
	if trunc {
		// miss_send_len / max_len truncation: total_len keeps the original size
		switch g.r.Pick(1, 1, 8) {
		case 0:
			cut = 0
		case 1:
			cut = g.r.Range(1, 13)
		default:
			cut = g.r.Range(14, 128)
		}
		g.tag("packet_in:truncated")
	}
	if cut > room {
		cut = room
	}
	if cut < total {
		pkt = pkt[:cut]
		var keep []Mark
		for _, m := range marks {
			if m.Off+m.Width <= cut {
				keep = append(keep, m)
			}
		}
		marks = keep
	}
	if total > 0xffff {
		total = 0xffff
	}
	w.Put16(tlOff, uint16(total))
	w.AppendRaw(pkt, marks)
	return g.end(w)
}

func (g *wireGen) genFlowRemoved() *W {
	sup, _ := wireFields()
	w := g.begin(wireTFlowRemoved)
	w.U64(g.u64())
	w.U16(g.u16())
	w.MU8(uint8(g.r.Intn(4)), "flow_removed.reason")
	w.U8(g.tableID())
	w.U32(uint32(g.r.Intn(100000)))
	w.U32(uint32(g.r.Intn(1000000000)))
	w.U16(uint16(g.r.Intn(600)))
	w.U16(uint16(g.r.Intn(600)))
	w.U64(g.counter())
	w.U64(g.counter())
	g.match(w, g.r.Range(0, 8), g.soft()-w.Len(), g.max-w.Len(), sup)
	return g.end(w)
}

// genFlowMod builds an ofp_flow_mod. pool is the OXM field pool of its match; extra (if not
// nil) is called to append additional instruction bytes.
func (g *wireGen) genFlowMod(cmd uint8, pool []*wireOXM, forced []*wireOXM) *W {
	w := g.begin(wireTFlowMod)
	w.U64(g.u64())
	if cmd == 0 {
		w.U64(0)
	} else {
		w.U64(g.u64())
	}
	if cmd >= 3 && g.r.Chance(0.3) {
		w.U8(0xff) // OFPTT_ALL
	} else {
		w.U8(g.tableID())
	}
	w.MU8(cmd, "flow_mod.command")
	w.U16(uint16(g.r.Intn(600)))
	w.U16(uint16(g.r.Intn(600)))
	w.U16(g.u16())
	if g.r.Chance(0.8) || cmd >= 3 {
		w.U32(wireNoBuffer)
	} else {
		w.U32(uint32(g.r.Intn(256)))
	}
	if cmd >= 3 && g.r.Chance(0.5) {
		w.U32(g.port32())
		w.U32(g.group32())
	} else {
		w.U32(0xffffffff)
		w.U32(0xffffffff)
	}
	w.U16(uint16(g.r.Intn(32)))
	w.Zero(2)
	soft := g.soft()
	msoft := 0
	if soft > 400 {
		msoft = soft / 8
		if msoft > 1500 {
			msoft = 1500
		}
	}
	if forced != nil {
		// match made of the forced fields plus a few from the pool
		start := w.Len()
		w.MU16(1, "match.type")
		w.MU16(0, "match.length")
		for _, f := range forced {
			g.oxm(w, f, g.r.Chance(0.4))
		}
		w.Put16(start+2, uint16(w.Len()-start))
		wirePad8(w, start)
	} else {
		g.match(w, g.r.Range(0, 8), msoft, 3000, pool)
	}
	ni := g.r.Range(0, 6)
	if cmd >= 3 && g.r.Chance(0.8) {
		ni, soft = 0, 0 // deletes normally carry no instructions
	}
	isoft := soft - w.Len()
	if isoft < 0 {
		isoft = 0
	}
	w.Append(g.instructions(ni, isoft, g.max-w.Len()))
	return g.end(w)
}

// ---------------------------------------------------------------------------------------------
// Controller-to-switch messages the library's Parse answers with (nil, nil) or "unknown type"

// buckets builds a list of ofp_bucket.
func (g *wireGen) buckets(nat, soft, room int) *W {
	w := &W{}
	n := 0
	for (n < nat || w.Len() < soft) && room-w.Len() >= 16 {
		start := w.Len()
		w.MU16(0, "bucket.len")
		w.U16(uint16(g.r.Intn(100)))
		if g.r.Chance(0.7) {
			w.U32(0xffffffff)
			w.U32(0xffffffff)
		} else {
			w.U32(g.port32())
			w.U32(g.group32())
		}
		w.Zero(4)
		s := 0
		if soft > w.Len() {
			s = (soft - w.Len()) / 4
		}
		w.Append(g.actionList(g.r.Range(0, 3), s, room-w.Len(), false, 0))
		w.Put16(start, uint16(w.Len()-start))
		n++
	}
	return w
}

func (g *wireGen) genPacketOut() *W {
	w := g.begin(wireTPacketOut)
	buffered := g.r.Chance(0.2)
	if buffered {
		w.U32(uint32(g.r.Intn(256)))
	} else {
		w.U32(wireNoBuffer)
	}
	w.U32(g.port32())
	alOff := w.Len()
	w.MU16(0, "packet_out.actions_len")
	w.Zero(6)
	s := 0
	if g.soft() > 200 {
		s = g.soft() / 3
	}
	acts := g.actionList(g.r.Range(0, 4), s, (g.max-w.Len())/2, false, 0)
	w.Append(acts)
	w.Put16(alOff, uint16(acts.Len()))
	if !buffered {
		room := g.max - w.Len()
		ph := g.soft() - w.Len()
		if ph < 0 {
			ph = 0
		}
		if ph > room {
			ph = room
		}
		pkt, marks := PacketSource(g.r, ph)
		if len(pkt) <= room {
			w.AppendRaw(pkt, marks)
		}
	}
	return g.end(w)
}

func (g *wireGen) genGroupMod() *W {
	w := g.begin(wireTGroupMod)
	cmd := g.r.Intn(3)
	w.MU16(uint16(cmd), "group_mod.command")
	typ := g.r.Intn(4)
	w.MU8(uint8(typ), "group_mod.type")
	w.U8(0)
	w.U32(g.group32())
	if cmd != 2 {
		nat := g.r.Range(0, 4)
		if typ == 2 {
			nat = 1 // indirect groups have exactly one bucket
		}
		soft := g.soft() - w.Len()
		if typ == 2 {
			soft = 0
		}
		w.Append(g.buckets(nat, soft, g.max-w.Len()))
	}
	return g.end(w)
}

func (g *wireGen) genPortMod() *W {
	w := g.begin(wireTPortMod)
	w.U32(g.port32())
	w.Zero(4)
	w.Bytes(g.r.Bytes(6))
	w.Zero(2)
	m := uint32(g.r.Intn(128)) & 0x65
	w.U32(uint32(g.r.Intn(128)) & m)
	w.U32(m)
	w.U32(uint32(g.r.Intn(1 << 16)))
	w.Zero(4)
	return g.end(w)
}

func (g *wireGen) genTableMod() *W {
	w := g.begin(wireTTableMod)
	w.U8(g.tableID())
	w.Zero(3)
	w.U32(uint32(g.r.Intn(4)))
	return g.end(w)
}

func (g *wireGen) genQueueGetConfigReq() *W {
	w := g.begin(wireTQueueGetCfgReq)
	w.U32(g.port32())
	w.Zero(4)
	return g.end(w)
}

func (g *wireGen) genQueueGetConfigRep() *W {
	w := g.begin(wireTQueueGetCfgRep)
	port := g.port32()
	w.U32(port)
	w.Zero(4)
	nat := g.r.Range(0, 4)
	for n := 0; (n < nat || w.Len() < g.soft()) && g.max-w.Len() >= 64+48; n++ {
		start := w.Len()
		w.U32(uint32(n))
		w.U32(port)
		w.MU16(0, "queue.len")
		w.Zero(6)
		np := g.r.Range(0, 3)
		for i := 0; i < np; i++ {
			ps := w.Len()
			k := g.r.Pick(4, 4, 1)
			w.MU16([]uint16{1, 2, 0xffff}[k], "prop.type")
			w.MU16(0, "prop.len")
			w.Zero(4)
			if k == 2 {
				w.MU32(wireNXVendor, "vendor.id")
				w.Zero(4)
				w.Bytes(g.r.Bytes(8 * g.r.Intn(3)))
			} else {
				w.U16(uint16(g.r.Range(0, 1000)))
				w.Zero(6)
			}
			w.Put16(ps+2, uint16(w.Len()-ps))
		}
		w.Put16(start+8, uint16(w.Len()-start))
	}
	return g.end(w)
}

func (g *wireGen) genRole(typ uint8) *W {
	w := g.begin(typ)
	w.U32(uint32(g.r.Intn(4)))
	w.Zero(4)
	w.U64(g.u64())
	return g.end(w)
}

func (g *wireGen) genAsync(typ uint8) *W {
	w := g.begin(typ)
	for i := 0; i < 2; i++ {
		w.U32(uint32(g.r.Intn(8)))
	}
	for i := 0; i < 2; i++ {
		w.U32(uint32(g.r.Intn(8)))
	}
	for i := 0; i < 2; i++ {
		w.U32(uint32(g.r.Intn(16)))
	}
	return g.end(w)
}

// meterBands appends ofp_meter_band_* entries.
func (g *wireGen) meterBands(w *W, nat, soft, room int) {
	start := w.Len()
	for n := 0; (n < nat || w.Len()-start < soft) && w.Len()-start+16 <= room; n++ {
		k := g.r.Pick(5, 4, 1)
		w.MU16([]uint16{1, 2, 0xffff}[k], "band.type")
		w.MU16(16, "band.len")
		w.U32(uint32(g.r.Intn(1000000)))
		w.U32(uint32(g.r.Intn(100000)))
		switch k {
		case 0:
			w.Zero(4)
		case 1:
			w.U8(uint8(g.r.Range(1, 7)))
			w.Zero(3)
		default:
			w.MU32(wireNXVendor, "vendor.id")
		}
	}
}

func (g *wireGen) genMeterMod() *W {
	w := g.begin(wireTMeterMod)
	cmd := g.r.Intn(3)
	w.MU16(uint16(cmd), "meter_mod.command")
	w.U16(uint16(1<<uint(g.r.Intn(2))) | uint16(g.r.Intn(4))<<2)
	w.U32(uint32(g.r.Range(1, 1000)))
	if cmd != 2 {
		g.meterBands(w, g.r.Range(0, 4), g.soft()-w.Len(), g.max-w.Len())
	}
	return g.end(w)
}

// ---------------------------------------------------------------------------------------------
// Multipart

var wireMPNames = []string{
	"desc", "flow", "aggregate", "table", "port_stats", "queue", "group", "group_desc",
	"group_features", "meter", "meter_config", "meter_features", "table_features", "port_desc",
	"experimenter",
}

func wireMPType(i int) uint16 {
	if i == 14 {
		return 0xffff
	}
	return uint16(i)
}

func (g *wireGen) mpBegin(typ uint8, mp int) *W {
	w := g.begin(typ)
	w.MU16(wireMPType(mp), "mp.type")
	w.U16(uint16(g.r.Pick(4, 1))) // OFPMPF_*_MORE
	w.Zero(4)
	return w
}

// tableFeatures appends one ofp_table_features of at most room bytes.
func (g *wireGen) tableFeatures(w *W, id int, room int) bool {
	if room < 64+200 {
		return false
	}
	t := wireFieldTable()
	start := w.Len()
	w.MU16(0, "table_features.length")
	w.U8(uint8(id))
	w.Zero(5)
	g.name(w, 32)
	w.U64(g.u64())
	w.U64(g.u64())
	w.U32(uint32(g.r.Intn(4)))
	w.U32(uint32(g.r.Intn(1000000)))
	// a random subset of property types, ascending
	ptypes := []uint16{0, 1, 2, 3, 4, 5, 6, 7, 8, 10, 12, 13, 14, 15, 0xfffe, 0xffff}
	for _, pt := range ptypes {
		if !g.r.Chance(0.5) || w.Len()-start+360 > room {
			continue
		}
		ps := w.Len()
		w.MU16(pt, "prop.type")
		w.MU16(0, "prop.len")
		switch {
		case pt <= 1: // instruction ids
			for i := 1; i <= 6; i++ {
				if g.r.Chance(0.7) {
					w.MU16(uint16(i), "instr.type")
					w.MU16(4, "instr.len")
				}
			}
		case pt <= 3: // next tables
			for i := id + 1; i < id+1+g.r.Intn(20) && i < 255; i++ {
				w.U8(uint8(i))
			}
		case pt <= 7: // action ids
			for _, at := range wireActTypes {
				if g.r.Chance(0.6) {
					w.MU16(at, "action.type")
					w.MU16(4, "action.len")
				}
			}
			if g.r.Chance(0.3) {
				w.MU16(0xffff, "action.type")
				w.MU16(8, "action.len")
				w.MU32(wireNXVendor, "vendor.id")
			}
		case pt <= 15: // oxm ids
			n := g.r.Intn(40)
			for i := 0; i < n; i++ {
				f := &t[g.r.Intn(len(t))]
				if f.n == 0 {
					continue
				}
				hm := pt == 8 && f.mask && g.r.Chance(0.5)
				l := f.n
				if hm {
					l *= 2
				}
				h := f.header(l)
				if hm {
					h |= 1 << 8
				}
				if f.class == 0xffff {
					h = f.header(l + 4)
				}
				w.MU32(h, "oxm.header")
				if f.class == 0xffff {
					w.MU32(f.exp, "oxm.experimenter")
				}
			}
		default: // experimenter
			w.MU32(wireNXVendor, "vendor.id")
			w.MU32(uint32(g.r.Intn(8)), "vendor.type")
			w.Bytes(g.r.Bytes(4 * g.r.Intn(5)))
		}
		w.Put16(ps+2, uint16(w.Len()-ps))
		wirePad8(w, ps)
	}
	w.Put16(start, uint16(w.Len()-start))
	return true
}

func (g *wireGen) flowStatsRequest(w *W) {
	sup, _ := wireFields()
	if g.r.Chance(0.4) {
		w.U8(0xff)
	} else {
		w.U8(g.tableID())
	}
	w.Zero(3)
	if g.r.Chance(0.6) {
		w.U32(0xffffffff)
		w.U32(0xffffffff)
	} else {
		w.U32(g.port32())
		w.U32(g.group32())
	}
	w.Zero(4)
	m := g.u64()
	if g.r.Chance(0.5) {
		m = 0
	}
	w.U64(g.u64() & m)
	w.U64(m)
	g.match(w, g.r.Range(0, 8), g.soft()-w.Len(), g.max-w.Len(), sup)
}

func (g *wireGen) genMPRequest(mp int) *W {
	w := g.mpBegin(wireTMultipartReq, mp)
	switch mp {
	case 1, 2:
		g.flowStatsRequest(w)
	case 4: // port stats
		w.U32(g.port32())
		w.Zero(4)
	case 5: // queue
		w.U32(g.port32())
		if g.r.Chance(0.5) {
			w.U32(0xffffffff)
		} else {
			w.U32(uint32(g.r.Intn(16)))
		}
	case 6: // group
		w.U32(g.group32())
		w.Zero(4)
	case 9, 10: // meter, meter config
		if g.r.Chance(0.5) {
			w.U32(0xffffffff)
		} else {
			w.U32(uint32(g.r.Range(1, 1000)))
		}
		w.Zero(4)
	case 12: // table features: empty, or the desired configuration
		if g.r.Chance(0.5) {
			nat := g.r.Range(1, 3)
			for n := 0; n < nat || w.Len() < g.soft(); n++ {
				if n >= 254 || !g.tableFeatures(w, n, g.max-w.Len()) {
					break
				}
			}
		}
	case 14:
		w.MU32(wireNXVendor, "vendor.id")
		w.MU32(uint32(g.r.Intn(8)), "vendor.type")
		g.bodyBytes(w, 32)
	}
	return g.end(w)
}

func (g *wireGen) genMPReply(mp int) *W {
	sup := g.fields()
	w := g.mpBegin(wireTMultipartRep, mp)
	soft := g.soft()
	nat := g.r.Range(0, 20)
	if g.r.Chance(0.5) {
		nat = g.r.Range(0, 3)
	}
	// more reports whether another record of about sz bytes should and can be added
	n := 0
	more := func(sz int) bool {
		ok := (n < nat || w.Len() < soft) && w.Len()+sz <= g.max
		if ok {
			n++
		}
		return ok
	}
	switch mp {
	case 0: // desc
		for _, l := range []int{256, 256, 256, 32, 256} {
			g.name(w, l)
		}
	case 1: // flow
		for more(56 + 400) {
			start := w.Len()
			w.MU16(0, "flow_stats.length")
			w.U8(g.tableID())
			w.U8(0)
			w.U32(uint32(g.r.Intn(100000)))
			w.U32(uint32(g.r.Intn(1000000000)))
			w.U16(g.u16())
			w.U16(uint16(g.r.Intn(600)))
			w.U16(uint16(g.r.Intn(600)))
			w.U16(uint16(g.r.Intn(32)))
			w.Zero(4)
			w.U64(g.u64())
			w.U64(g.counter())
			w.U64(g.counter())
			g.match(w, g.r.Range(0, 6), 0, 300, sup)
			room := g.max - w.Len()
			is := 0
			if soft > 4000 && g.r.Chance(0.2) {
				is = soft / 8
			}
			w.Append(g.instructions(g.r.Range(0, 4), is, room))
			w.Put16(start, uint16(w.Len()-start))
		}
	case 2: // aggregate
		w.U64(g.counter())
		w.U64(g.counter())
		w.U32(uint32(g.r.Intn(100000)))
		w.Zero(4)
	case 3: // table
		for more(24) {
			w.U8(uint8(n - 1))
			w.Zero(3)
			w.U32(uint32(g.r.Intn(100000)))
			w.U64(g.counter())
			w.U64(g.counter())
			if n >= 254 {
				break
			}
		}
	case 4: // port stats
		for more(112) {
			w.U32(g.port32())
			w.Zero(4)
			for i := 0; i < 12; i++ {
				w.U64(g.counter())
			}
			w.U32(uint32(g.r.Intn(100000)))
			w.U32(uint32(g.r.Intn(1000000000)))
		}
	case 5: // queue
		for more(40) {
			w.U32(g.port32())
			w.U32(uint32(g.r.Intn(16)))
			for i := 0; i < 3; i++ {
				w.U64(g.counter())
			}
			w.U32(uint32(g.r.Intn(100000)))
			w.U32(uint32(g.r.Intn(1000000000)))
		}
	case 6: // group
		for more(40 + 16*8) {
			start := w.Len()
			w.MU16(0, "group_stats.length")
			w.Zero(2)
			w.U32(uint32(g.r.Range(0, 4000)))
			w.U32(uint32(g.r.Intn(100)))
			w.Zero(4)
			w.U64(g.counter())
			w.U64(g.counter())
			w.U32(uint32(g.r.Intn(100000)))
			w.U32(uint32(g.r.Intn(1000000000)))
			nb := g.r.Range(0, 8)
			for i := 0; i < nb; i++ {
				w.U64(g.counter())
				w.U64(g.counter())
			}
			w.Put16(start, uint16(w.Len()-start))
		}
	case 7: // group desc
		for more(8 + 400) {
			start := w.Len()
			w.MU16(0, "group_desc.length")
			typ := g.r.Intn(4)
			w.MU8(uint8(typ), "group_desc.type")
			w.U8(0)
			w.U32(uint32(g.r.Range(0, 4000)))
			nb := g.r.Range(0, 3)
			if typ == 2 {
				nb = 1
			}
			room := g.max - w.Len()
			if room > 2000 {
				room = 2000
			}
			w.Append(g.buckets(nb, 0, room))
			w.Put16(start, uint16(w.Len()-start))
		}
	case 8: // group features
		w.U32(uint32(g.r.Intn(16)))
		w.U32(uint32(g.r.Intn(16)))
		for i := 0; i < 4; i++ {
			w.U32(uint32(g.r.Intn(100000)))
		}
		for i := 0; i < 4; i++ {
			w.U32(g.u32() & 0x0fffffff)
		}
	case 9: // meter stats
		for more(40 + 16*4) {
			start := w.Len()
			w.U32(uint32(g.r.Range(1, 1000)))
			w.MU16(0, "meter_stats.len")
			w.Zero(6)
			w.U32(uint32(g.r.Intn(100)))
			w.U64(g.counter())
			w.U64(g.counter())
			w.U32(uint32(g.r.Intn(100000)))
			w.U32(uint32(g.r.Intn(1000000000)))
			nb := g.r.Range(0, 4)
			for i := 0; i < nb; i++ {
				w.U64(g.counter())
				w.U64(g.counter())
			}
			w.Put16(start+4, uint16(w.Len()-start))
		}
	case 10: // meter config
		for more(8 + 16*4) {
			start := w.Len()
			w.MU16(0, "meter_config.length")
			w.U16(uint16(1<<uint(g.r.Intn(2))) | uint16(g.r.Intn(4))<<2)
			w.U32(uint32(g.r.Range(1, 1000)))
			g.meterBands(w, g.r.Range(0, 4), 0, 64)
			w.Put16(start, uint16(w.Len()-start))
		}
	case 11: // meter features
		w.U32(uint32(g.r.Intn(100000)))
		w.U32(uint32(g.r.Intn(8)) &^ 1)
		w.U32(uint32(g.r.Intn(16)))
		w.U8(uint8(g.r.Range(1, 16)))
		w.U8(uint8(g.r.Intn(9)))
		w.Zero(2)
	case 12: // table features
		for more(64 + 200) {
			if n > 254 || !g.tableFeatures(w, n-1, g.max-w.Len()) {
				break
			}
		}
	case 13: // port desc
		for more(64) {
			g.port(w)
		}
	case 14:
		w.MU32(wireNXVendor, "vendor.id")
		w.MU32(uint32(g.r.Intn(8)), "vendor.type")
		g.bodyBytes(w, 32)
	}
	g.tag(fmt.Sprintf("mp:records=%d", n))
	return g.end(w)
}

// ---------------------------------------------------------------------------------------------
// Experimenter (vendor) messages

func (g *wireGen) vendorBegin(vendor, typ uint32) *W {
	w := g.begin(wireTExperimenter)
	w.MU32(vendor, "vendor.id")
	w.MU32(typ, "vendor.type")
	return w
}

func (g *wireGen) tlvMaps(w *W) {
	nat := g.r.Range(0, 4)
	for n := 0; (n < nat || w.Len() < g.soft()) && w.Len()+8 <= g.max; n++ {
		w.U16([]uint16{0xffff, 0x0102, 0x0103, g.u16()}[g.r.Intn(4)])
		w.U8(uint8(g.r.Intn(128)))
		w.MU8(uint8(4*g.r.Range(1, 31)), "tlv_map.option_len")
		w.U16(uint16(g.r.Intn(64)))
		w.Zero(2)
	}
}

// genNXT builds one Nicira extension message.
func (g *wireGen) genNXT(typ uint32) *W {
	w := g.vendorBegin(wireNXVendor, typ)
	switch typ {
	case 12: // NXT_SET_FLOW_FORMAT
		w.U32([]uint32{0, 2}[g.r.Intn(2)])
	case 15: // NXT_FLOW_MOD_TABLE_ID
		w.U8(uint8(g.r.Intn(2)))
		w.Zero(7)
	case 16: // NXT_SET_PACKET_IN_FORMAT
		w.U32(uint32(g.r.Intn(3)))
	case 20: // NXT_SET_CONTROLLER_ID
		w.Zero(6)
		w.U16(uint16(g.r.Intn(64)))
	case 24: // NXT_TLV_TABLE_MOD
		w.MU16(uint16(g.r.Intn(3)), "tlv_table_mod.command")
		w.Zero(6)
		g.tlvMaps(w)
	case 25: // NXT_TLV_TABLE_REQUEST: no body
	case 26: // NXT_TLV_TABLE_REPLY
		w.U32(256)
		w.U16(64)
		w.Zero(10)
		g.tlvMaps(w)
	case 29: // NXT_CT_FLUSH_ZONE
		w.Zero(6)
		w.U16(g.u16())
	}
	return g.end(w)
}

// bundleProps appends 0..n ofp_bundle_prop_experimenter.
func (g *wireGen) bundleProps(w *W, n int) {
	for i := 0; i < n; i++ {
		ps := w.Len()
		w.MU16(0xffff, "prop.type")
		w.MU16(0, "prop.len")
		w.MU32([]uint32{wireNXVendor, wireONFVendor}[g.r.Intn(2)], "vendor.id")
		w.MU32(uint32(g.r.Intn(8)), "vendor.type")
		w.Bytes(g.r.Bytes(g.r.Intn(17)))
		w.Put16(ps+2, uint16(w.Len()-ps))
		wirePad8(w, ps)
	}
	if n > 0 {
		g.tag(fmt.Sprintf("bundle:props=%d", n))
	}
}

func (g *wireGen) genBundleCtrl() *W {
	w := g.vendorBegin(wireONFVendor, 2300)
	w.U32(uint32(g.r.Intn(1000)))
	w.MU16(uint16(g.r.Intn(8)), "bundle_ctrl.type")
	w.U16(uint16(g.r.Intn(4)))
	g.bundleProps(w, g.r.Pick(6, 3, 1))
	return g.end(w)
}

// genBundleAdd wraps another generated frame (same xid, as EXT-230 demands).
func (g *wireGen) genBundleAdd(inner string) (*W, error) {
	w := g.vendorBegin(wireONFVendor, 2301)
	w.U32(uint32(g.r.Intn(1000)))
	w.Zero(2)
	w.U16(uint16(g.r.Intn(4)))
	np := g.r.Pick(6, 3, 1)
	kinds := wireTable()
	if inner == "" {
		// what a controller really bundles most of the time, else anything
		if g.r.Chance(0.5) {
			inner = []string{"flow_mod_add", "flow_mod_modify", "flow_mod_delete_strict", "group_mod", "port_mod", "packet_out"}[g.r.Intn(6)]
		} else {
			inner = kinds[g.r.Intn(len(kinds))].name
		}
	}
	if g.depth >= 1 && (inner == "bundle_add" || len(inner) > 11 && inner[:11] == "bundle_add_") {
		inner = "flow_mod_add"
	}
	g.tag("bundle:inner=" + inner)
	ih := g.hint - w.Len() - np*40
	if ih < 0 {
		ih = 0
	}
	sub := &wireGen{r: g.r, xid: g.xid, hint: ih, max: g.max - w.Len() - np*40 - 8, depth: g.depth + 1}
	iw, err := sub.gen(inner)
	if err != nil {
		return nil, err
	}
	g.tags = append(g.tags, sub.tags...)
	if iw.Len() > sub.max {
		return nil, fmt.Errorf("inner %s frame of %d bytes exceeds %d", inner, iw.Len(), sub.max)
	}
	start := w.Len()
	w.Append(iw)
	if np > 0 {
		// the message is padded to 64 bits only when properties follow
		if (w.Len()-start)%8 != 0 {
			g.tag("bundle:inner_padded")
		}
		wirePad8(w, start)
		g.bundleProps(w, np)
	}
	return g.end(w), nil
}

// ---------------------------------------------------------------------------------------------
// Kind table

type wireKind struct {
	name string
	gen  func(g *wireGen) (*W, error)
}

func wireOK(f func(g *wireGen) *W) func(g *wireGen) (*W, error) {
	return func(g *wireGen) (*W, error) { return f(g), nil }
}

func wireTable() []wireKind {
	sup, unsup := wireFields()
	t := []wireKind{
		{"hello", wireOK(func(g *wireGen) *W { return g.genHello(false) })},
		{"hello_unknown_elem", wireOK(func(g *wireGen) *W { return g.genHello(true) })},
		{"error", wireOK(func(g *wireGen) *W { return g.genError(false) })},
		{"error_exp", wireOK(func(g *wireGen) *W { return g.genError(true) })},
		{"echo_req", wireOK(func(g *wireGen) *W { return g.genEcho(wireTEchoReq) })},
		{"echo_rep", wireOK(func(g *wireGen) *W { return g.genEcho(wireTEchoRep) })},
		{"features_req", wireOK(func(g *wireGen) *W { return g.genHeaderOnly(wireTFeaturesReq) })},
		{"features_rep", wireOK(func(g *wireGen) *W { return g.genFeaturesReply() })},
		{"getconfig_req", wireOK(func(g *wireGen) *W { return g.genHeaderOnly(wireTGetConfigReq) })},
		{"getconfig_rep", wireOK(func(g *wireGen) *W { return g.genSwitchConfig(wireTGetConfigRep) })},
		{"setconfig", wireOK(func(g *wireGen) *W { return g.genSwitchConfig(wireTSetConfig) })},
		{"packet_in", wireOK(func(g *wireGen) *W { return g.genPacketIn(false) })},
		{"packet_in_trunc", wireOK(func(g *wireGen) *W { return g.genPacketIn(true) })},
		{"flow_removed", wireOK(func(g *wireGen) *W { return g.genFlowRemoved() })},
		{"port_status", wireOK(func(g *wireGen) *W { return g.genPortStatus() })},
		{"flow_mod_add", wireOK(func(g *wireGen) *W { return g.genFlowMod(0, sup, nil) })},
		{"flow_mod_modify", wireOK(func(g *wireGen) *W { return g.genFlowMod(1, sup, nil) })},
		{"flow_mod_modify_strict", wireOK(func(g *wireGen) *W { return g.genFlowMod(2, sup, nil) })},
		{"flow_mod_delete", wireOK(func(g *wireGen) *W { return g.genFlowMod(3, sup, nil) })},
		{"flow_mod_delete_strict", wireOK(func(g *wireGen) *W { return g.genFlowMod(4, sup, nil) })},
		{"flow_mod_add_compat", wireOK(func(g *wireGen) *W { g.compat = true; return g.genFlowMod(0, g.fields(), nil) })},
		// a flow_mod whose match holds 1..3 valid OXM fields the library has no decoder for
		{"flow_mod_unsup_oxm", wireOK(func(g *wireGen) *W {
			var forced []*wireOXM
			n := g.r.Range(1, 3)
			for i := 0; i < n; i++ {
				forced = append(forced, unsup[g.r.Intn(len(unsup))])
			}
			for i := g.r.Intn(3); i > 0; i-- {
				forced = append(forced, sup[g.r.Intn(len(sup))])
			}
			// shuffle
			for i := len(forced) - 1; i > 0; i-- {
				j := g.r.Intn(i + 1)
				forced[i], forced[j] = forced[j], forced[i]
			}
			return g.genFlowMod(0, sup, forced)
		})},
		{"barrier_req", wireOK(func(g *wireGen) *W { return g.genHeaderOnly(wireTBarrierReq) })},
		{"barrier_rep", wireOK(func(g *wireGen) *W { return g.genHeaderOnly(wireTBarrierRep) })},
	}
	for i, n := range wireMPNames {
		i := i
		t = append(t, wireKind{"mp_req_" + n, wireOK(func(g *wireGen) *W { return g.genMPRequest(i) })})
	}
	for i, n := range wireMPNames {
		i := i
		t = append(t, wireKind{"mp_rep_" + n, wireOK(func(g *wireGen) *W { return g.genMPReply(i) })})
	}
	t = append(t, wireKind{"mp_rep_flow_compat", wireOK(func(g *wireGen) *W { g.compat = true; return g.genMPReply(1) })})
	nxt := []struct {
		n string
		t uint32
	}{
		{"vendor_nx_set_flow_format", 12}, {"vendor_nx_flow_mod_table_id", 15},
		{"vendor_nx_set_packet_in_format", 16}, {"vendor_nx_set_controller_id", 20},
		{"vendor_nx_tlv_table_mod", 24}, {"vendor_nx_tlv_table_request", 25},
		{"vendor_nx_tlv_table_reply", 26}, {"vendor_nx_ct_flush_zone", 29},
	}
	for _, x := range nxt {
		x := x
		t = append(t, wireKind{x.n, wireOK(func(g *wireGen) *W { return g.genNXT(x.t) })})
	}
	t = append(t, []wireKind{
		{"bundle_ctrl", wireOK(func(g *wireGen) *W { return g.genBundleCtrl() })},
		{"bundle_add", func(g *wireGen) (*W, error) { return g.genBundleAdd("") }},
		{"bundle_add_flow_mod", func(g *wireGen) (*W, error) { return g.genBundleAdd("flow_mod_add") }},
		{"bundle_add_barrier", func(g *wireGen) (*W, error) { return g.genBundleAdd("barrier_req") }},
		// messages Parse has a case but no decoder for: it answers (nil, nil)
		{"packet_out", wireOK(func(g *wireGen) *W { return g.genPacketOut() })},
		{"group_mod", wireOK(func(g *wireGen) *W { return g.genGroupMod() })},
		{"port_mod", wireOK(func(g *wireGen) *W { return g.genPortMod() })},
		{"table_mod", wireOK(func(g *wireGen) *W { return g.genTableMod() })},
		{"queue_getconfig_req", wireOK(func(g *wireGen) *W { return g.genQueueGetConfigReq() })},
		{"queue_getconfig_rep", wireOK(func(g *wireGen) *W { return g.genQueueGetConfigRep() })},
		// messages Parse has no case for: it answers with an error
		{"role_req", wireOK(func(g *wireGen) *W { return g.genRole(wireTRoleReq) })},
		{"role_rep", wireOK(func(g *wireGen) *W { return g.genRole(wireTRoleRep) })},
		{"get_async_req", wireOK(func(g *wireGen) *W { return g.genHeaderOnly(wireTGetAsyncReq) })},
		{"get_async_rep", wireOK(func(g *wireGen) *W { return g.genAsync(wireTGetAsyncRep) })},
		{"set_async", wireOK(func(g *wireGen) *W { return g.genAsync(wireTSetAsync) })},
		{"meter_mod", wireOK(func(g *wireGen) *W { return g.genMeterMod() })},
	}...)
	t = append(t, wireExtraKinds...)
	return t
}

func (g *wireGen) gen(kind string) (*W, error) {
	for _, k := range wireTable() {
		if k.name == kind {
			return k.gen(g)
		}
	}
	return nil, fmt.Errorf("unknown wire kind %q", kind)
}

// WireKinds lists every frame kind the corpus can produce, in a fixed order.
func WireKinds() []string {
	t := wireTable()
	out := make([]string, len(t))
	for i, k := range t {
		out[i] = k.name
	}
	return out
}

// WireFrameTagged is WireFrame plus the list of features (actions, OXM fields, instruction
// kinds, ...) the generator put into the frame, e.g. "act:set_queue", "oxm:8000/28/m".
func WireFrameTagged(kind string, xid uint32, r *simrt.RNG, sizeHint int) (b []byte, marks []Mark, tags []string, err error) {
	g := &wireGen{r: r, xid: xid, hint: sizeHint, max: wireMaxFrame}
	w, err := g.gen(kind)
	if err != nil {
		return nil, nil, nil, err
	}
	if w.Len() < 8 || w.Len() > wireMaxFrame {
		return nil, nil, nil, fmt.Errorf("wire kind %s: frame of %d bytes", kind, w.Len())
	}
	if int(w.B[2])<<8|int(w.B[3]) != w.Len() {
		return nil, nil, nil, fmt.Errorf("wire kind %s: header length not patched", kind)
	}
	return w.B, w.Marks, g.tags, nil
}

// WireFrame builds one complete, well-formed OpenFlow 1.3 frame of the kind: version 4, the
// right ofp_type, header length field == len(b) (<= 65535), the given xid. Every random choice
// comes from r. sizeHint is a soft target for the total size for kinds that can scale. marks
// lists the offsets of every length-, count-, type- and code-like field written.
func WireFrame(kind string, xid uint32, r *simrt.RNG, sizeHint int) (b []byte, marks []Mark, err error) {
	b, marks, _, err = WireFrameTagged(kind, xid, r, sizeHint)
	return
}
