package hlib

import (
	"bytes"
	"fmt"
	"reflect"
	"sort"
	"unsafe"
)

var bytesBufferType = reflect.TypeOf(bytes.Buffer{})

type hasher struct {
	h     uint64
	seen  map[uintptr]bool
	depth int
}

func (h *hasher) u64(v uint64) {
	h.h ^= v
	h.h *= 1099511628211
	h.h ^= h.h >> 29
}

func (h *hasher) bytes(b []byte) {
	h.u64(uint64(len(b)))
	for _, c := range b {
		h.h ^= uint64(c)
		h.h *= 1099511628211
	}
}

// DeepHash hashes the contents (never addresses) of everything reachable from v,
// including unexported fields. Cycle-safe. bytes.Buffer values hash their unread bytes.
func DeepHash(v any) uint64 {
	h := &hasher{h: 14695981039346656037, seen: map[uintptr]bool{}}
	h.val(reflect.ValueOf(v))
	return h.h
}

func (h *hasher) val(v reflect.Value) {
	if !v.IsValid() {
		h.u64(0xdead)
		return
	}
	h.depth++
	defer func() { h.depth-- }()
	if h.depth > 200 {
		h.u64(0xdeeb)
		return
	}
	switch v.Kind() {
	case reflect.Bool:
		if v.Bool() {
			h.u64(1)
		} else {
			h.u64(2)
		}
	case reflect.Int, reflect.Int8, reflect.Int16, reflect.Int32, reflect.Int64:
		h.u64(uint64(v.Int()))
	case reflect.Uint, reflect.Uint8, reflect.Uint16, reflect.Uint32, reflect.Uint64, reflect.Uintptr:
		h.u64(v.Uint())
	case reflect.Float32, reflect.Float64:
		h.u64(uint64(v.Float() * 1e6))
	case reflect.String:
		h.bytes([]byte(v.String()))
	case reflect.Slice:
		if v.IsNil() {
			h.u64(0x511)
			return
		}
		if v.Type().Elem().Kind() == reflect.Uint8 {
			h.bytes(v.Bytes())
			return
		}
		h.u64(uint64(v.Len()))
		for i := 0; i < v.Len(); i++ {
			h.val(v.Index(i))
		}
	case reflect.Array:
		for i := 0; i < v.Len(); i++ {
			h.val(v.Index(i))
		}
	case reflect.Struct:
		if v.Type() == bytesBufferType {
			// unread portion only
			buf := v.FieldByName("buf")
			off := int(v.FieldByName("off").Int())
			b := buf.Bytes()
			if off > len(b) {
				off = len(b)
			}
			h.u64(0xb0f)
			h.bytes(b[off:])
			return
		}
		h.bytes([]byte(v.Type().String()))
		for i := 0; i < v.NumField(); i++ {
			h.val(v.Field(i))
		}
	case reflect.Ptr:
		if v.IsNil() {
			h.u64(0x9711)
			return
		}
		p := v.Pointer()
		if h.seen[p] {
			h.u64(0xc1c)
			return
		}
		h.seen[p] = true
		h.val(v.Elem())
		delete(h.seen, p)
	case reflect.Interface:
		if v.IsNil() {
			h.u64(0x1f11)
			return
		}
		h.bytes([]byte(v.Elem().Type().String()))
		h.val(v.Elem())
	case reflect.Map:
		if v.IsNil() {
			h.u64(0x3a11)
			return
		}
		// order-independent: sort the per-entry hashes
		var hs []uint64
		it := v.MapRange()
		for it.Next() {
			sub := &hasher{h: 14695981039346656037, seen: h.seen, depth: h.depth}
			sub.val(it.Key())
			sub.val(it.Value())
			hs = append(hs, sub.h)
		}
		sort.Slice(hs, func(i, j int) bool { return hs[i] < hs[j] })
		h.u64(uint64(len(hs)))
		for _, x := range hs {
			h.u64(x)
		}
	case reflect.Func, reflect.Chan, reflect.UnsafePointer:
		if v.IsNil() {
			h.u64(0xf11)
		} else {
			h.u64(0xf12)
		}
	default:
		h.u64(0xffff)
	}
}

// Alias reports the path of the first slice, string or pointer reachable from v that
// points into [lo,hi), or "".
func Alias(v any, lo, hi uintptr) string {
	a := &aliaser{lo: lo, hi: hi, seen: map[uintptr]bool{}}
	a.val(reflect.ValueOf(v), "msg")
	return a.found
}

// Region is a half-open address range.
type Region struct{ Lo, Hi uintptr }

// Regions collects the backing arrays of every non-empty slice and the targets of every
// pointer reachable from v (used to check that two values share no memory).
func Regions(v any) []Region {
	a := &aliaser{collect: true, seen: map[uintptr]bool{}}
	a.val(reflect.ValueOf(v), "v")
	return a.regs
}

type aliaser struct {
	lo, hi  uintptr
	seen    map[uintptr]bool
	found   string
	depth   int
	collect bool
	regs    []Region
}

func (a *aliaser) hit(p uintptr, n uintptr, path string) {
	if a.collect {
		if n > 0 {
			a.regs = append(a.regs, Region{p, p + n})
		}
		return
	}
	if a.found != "" {
		return
	}
	if n == 0 {
		n = 1
	}
	if p < a.hi && p+n > a.lo {
		a.found = path
	}
}

func (a *aliaser) val(v reflect.Value, path string) {
	if !v.IsValid() || a.found != "" {
		return
	}
	a.depth++
	defer func() { a.depth-- }()
	if a.depth > 200 {
		return
	}
	switch v.Kind() {
	case reflect.Slice:
		if v.IsNil() {
			return
		}
		if v.Cap() > 0 {
			es := v.Type().Elem().Size()
			a.hit(v.Pointer(), uintptr(v.Cap())*es, path)
		}
		switch v.Type().Elem().Kind() {
		case reflect.Ptr, reflect.Interface, reflect.Struct, reflect.Slice, reflect.Map, reflect.Array, reflect.String:
			for i := 0; i < v.Len(); i++ {
				a.val(v.Index(i), fmt.Sprintf("%s[%d]", path, i))
			}
		}
	case reflect.String:
		if v.Len() > 0 {
			s := v.String()
			a.hit((*reflect.StringHeader)(unsafe.Pointer(&s)).Data, uintptr(len(s)), path)
		}
	case reflect.Array:
		switch v.Type().Elem().Kind() {
		case reflect.Ptr, reflect.Interface, reflect.Struct, reflect.Slice, reflect.Map, reflect.Array, reflect.String:
			for i := 0; i < v.Len(); i++ {
				a.val(v.Index(i), fmt.Sprintf("%s[%d]", path, i))
			}
		}
	case reflect.Struct:
		t := v.Type()
		for i := 0; i < v.NumField(); i++ {
			a.val(v.Field(i), path+"."+t.Field(i).Name)
		}
	case reflect.Ptr:
		if v.IsNil() {
			return
		}
		p := v.Pointer()
		if a.seen[p] {
			return
		}
		a.seen[p] = true
		a.hit(p, v.Type().Elem().Size(), path)
		a.val(v.Elem(), "(*"+path+")")
	case reflect.Interface:
		if v.IsNil() {
			return
		}
		a.val(v.Elem(), path)
	case reflect.Map:
		if v.IsNil() {
			return
		}
		it := v.MapRange()
		for it.Next() {
			a.val(it.Key(), path+"{key}")
			a.val(it.Value(), path+"{val}")
		}
	}
}
