// Package hlib holds code shared by the simulation harnesses.
package hlib
