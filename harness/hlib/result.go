package hlib

import (
	"container/heap"
	"encoding/json"
	"sort"
)

// Violation is one oracle failure found in a run.
type Violation struct {
	Property string          `json:"property"`
	Oracle   string          `json:"oracle"`
	Class    string          `json:"class"`          // equivalence class used for minimisation and known-finding matching
	Site     string          `json:"site,omitempty"` // function / site where applicable
	Detail   string          `json:"detail"`
	RunSeed  uint64          `json:"run_seed"`
	RunIndex int             `json:"run_index"`
	Scenario json.RawMessage `json:"scenario,omitempty"`
	Trace    []int32         `json:"decisions,omitempty"` // flattened (task, arm) pairs
	Hash     uint64          `json:"hash,omitempty"`
	// History: the runs the same worker process executed before this one (library state that
	// survives a run - caches, pools - can make a violation depend on them)
	History *History `json:"history,omitempty"`
}

// History identifies earlier runs of a worker by generator coordinates.
type History struct {
	Seed    uint64 `json:"seed"`
	Indices []int  `json:"indices"`
}

// Key identifies the violation class.
func (v *Violation) Key() string { return v.Property + "|" + v.Oracle + "|" + v.Class + "|" + v.Site }

// KMV is a k-minimum-values sketch for counting distinct 64-bit hashes across workers
// (exact while fewer than K distinct values were seen).
type KMV struct {
	K    int      `json:"k"`
	Vals []uint64 `json:"vals"` // sorted ascending, at most K
	set  map[uint64]struct{}
	hp   maxHeap
}

type maxHeap []uint64

func (h maxHeap) Len() int           { return len(h) }
func (h maxHeap) Less(i, j int) bool { return h[i] > h[j] }
func (h maxHeap) Swap(i, j int)      { h[i], h[j] = h[j], h[i] }
func (h *maxHeap) Push(x any)        { *h = append(*h, x.(uint64)) }
func (h *maxHeap) Pop() any {
	o := *h
	n := len(o)
	x := o[n-1]
	*h = o[:n-1]
	return x
}

func NewKMV(k int) *KMV { return &KMV{K: k, set: map[uint64]struct{}{}} }

func mix64(x uint64) uint64 {
	x ^= x >> 33
	x *= 0xff51afd7ed558ccd
	x ^= x >> 33
	x *= 0xc4ceb9fe1a85ec53
	x ^= x >> 33
	return x
}

// Add records a hash.
func (k *KMV) Add(h uint64) { k.addRaw(mix64(h)) }

func (k *KMV) addRaw(h uint64) {
	if k.set == nil {
		k.set = map[uint64]struct{}{}
		for _, v := range k.Vals {
			k.set[v] = struct{}{}
			heap.Push(&k.hp, v)
		}
	}
	if _, ok := k.set[h]; ok {
		return
	}
	if len(k.set) >= k.K {
		if h >= k.hp[0] {
			return
		}
		delete(k.set, k.hp[0])
		heap.Pop(&k.hp)
	}
	k.set[h] = struct{}{}
	heap.Push(&k.hp, h)
}

// Seal materialises Vals for serialisation.
func (k *KMV) Seal() {
	if k.set == nil {
		return
	}
	k.Vals = k.Vals[:0]
	for v := range k.set {
		k.Vals = append(k.Vals, v)
	}
	sort.Slice(k.Vals, func(i, j int) bool { return k.Vals[i] < k.Vals[j] })
}

// Merge folds o into k.
func (k *KMV) Merge(o *KMV) {
	for _, v := range o.Vals {
		k.addRaw(v)
	}
}

// Estimate returns the (estimated) number of distinct values seen.
func (k *KMV) Estimate() int64 {
	k.Seal()
	n := len(k.Vals)
	if n < k.K {
		return int64(n)
	}
	kth := k.Vals[n-1]
	if kth == 0 {
		return int64(n)
	}
	return int64(float64(n-1) / (float64(kth) / float64(^uint64(0))))
}

// Counter is an ordered string->int64 map (deterministic JSON, mergeable).
type Counter map[string]int64

func (c Counter) Add(k string, n int64) { c[k] += n }
func (c Counter) Merge(o Counter) {
	for k, v := range o {
		c[k] += v
	}
}

// MaxCounter keeps maxima.
type MaxCounter map[string]float64

func (c MaxCounter) Obs(k string, v float64) {
	if v > c[k] {
		c[k] = v
	}
}
func (c MaxCounter) Merge(o MaxCounter) {
	for k, v := range o {
		if v > c[k] {
			c[k] = v
		}
	}
}

// Summary is what one worker process reports.
type Summary struct {
	Property      string            `json:"property"`
	From          int               `json:"from"`
	Runs          int               `json:"runs"`
	Nontrivial    int               `json:"nontrivial"`
	Steps         int64             `json:"steps"`
	SimTimeNS     int64             `json:"sim_time_ns"`
	WallS         float64           `json:"wall_s"`
	Faults        Counter           `json:"faults"`
	Probes        Counter           `json:"probes"`
	Strategies    Counter           `json:"strategies"`
	Classes       Counter           `json:"config_classes"`
	EndKinds      Counter           `json:"end_kinds"`
	Maxima        MaxCounter        `json:"maxima"`
	States        *KMV              `json:"states"`
	Transitions   *KMV              `json:"transitions"`
	Traces        *KMV              `json:"traces"`
	NontrivTraces *KMV              `json:"nontrivial_traces"`
	Violations    []Violation       `json:"violations"`
	ViolCounts    Counter           `json:"violation_counts"`
	Samples       []json.RawMessage `json:"samples"`
	SiteHits      map[string]uint64 `json:"site_hits,omitempty"`
	Trouble       string            `json:"trouble,omitempty"`
	DetHashes     map[string]uint64 `json:"det_hashes,omitempty"`
}

func NewSummary(prop string) *Summary {
	return &Summary{Property: prop, Faults: Counter{}, Probes: Counter{}, Strategies: Counter{}, Classes: Counter{},
		EndKinds: Counter{}, Maxima: MaxCounter{}, States: NewKMV(16384), Transitions: NewKMV(16384),
		Traces: NewKMV(16384), NontrivTraces: NewKMV(16384), ViolCounts: Counter{}}
}

func (s *Summary) Seal() {
	s.States.Seal()
	s.Transitions.Seal()
	s.Traces.Seal()
	s.NontrivTraces.Seal()
}

// Merge folds another worker's summary into s.
func (s *Summary) Merge(o *Summary) {
	s.Runs += o.Runs
	s.Nontrivial += o.Nontrivial
	s.Steps += o.Steps
	s.SimTimeNS += o.SimTimeNS
	if o.WallS > s.WallS {
		s.WallS = o.WallS
	}
	s.Faults.Merge(o.Faults)
	s.Probes.Merge(o.Probes)
	s.Strategies.Merge(o.Strategies)
	s.Classes.Merge(o.Classes)
	s.EndKinds.Merge(o.EndKinds)
	s.Maxima.Merge(o.Maxima)
	s.States.Merge(o.States)
	s.Transitions.Merge(o.Transitions)
	s.Traces.Merge(o.Traces)
	s.NontrivTraces.Merge(o.NontrivTraces)
	s.Violations = append(s.Violations, o.Violations...)
	s.ViolCounts.Merge(o.ViolCounts)
	if len(s.Samples) < 3 {
		s.Samples = append(s.Samples, o.Samples...)
		if len(s.Samples) > 3 {
			s.Samples = s.Samples[:3]
		}
	}
	if o.SiteHits != nil {
		if s.SiteHits == nil {
			s.SiteHits = map[string]uint64{}
		}
		for k, v := range o.SiteHits {
			s.SiteHits[k] += v
		}
	}
	if o.Trouble != "" && s.Trouble == "" {
		s.Trouble = o.Trouble
	}
}
