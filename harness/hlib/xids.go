package hlib

import (
	"reflect"
	"unsafe"

	"github.com/contiv/libOpenflow/common"
)

var headerType = reflect.TypeOf(common.Header{})

// Headers returns pointers to every common.Header reachable from v (embedded, nested in
// slices, behind interfaces and pointers, in unexported fields), in a deterministic
// depth-first order. Used to read the transaction ids a built message drew from the
// process-wide counter and to normalise them before outputs are compared.
func Headers(v any) []*common.Header {
	w := &hdrWalker{seen: map[uintptr]bool{}}
	w.val(reflect.ValueOf(v))
	return w.out
}

type hdrWalker struct {
	out   []*common.Header
	seen  map[uintptr]bool
	depth int
}

func (w *hdrWalker) val(v reflect.Value) {
	if !v.IsValid() {
		return
	}
	w.depth++
	defer func() { w.depth-- }()
	if w.depth > 100 {
		return
	}
	switch v.Kind() {
	case reflect.Ptr:
		if v.IsNil() {
			return
		}
		p := v.Pointer()
		if w.seen[p] {
			return
		}
		w.seen[p] = true
		w.val(v.Elem())
	case reflect.Interface:
		if !v.IsNil() {
			w.val(v.Elem())
		}
	case reflect.Struct:
		if v.Type() == headerType {
			if v.CanAddr() {
				w.out = append(w.out, (*common.Header)(unsafe.Pointer(v.UnsafeAddr())))
			}
			return
		}
		if v.Type() == bytesBufferType {
			return
		}
		for i := 0; i < v.NumField(); i++ {
			w.val(v.Field(i))
		}
	case reflect.Slice:
		if v.IsNil() {
			return
		}
		switch v.Type().Elem().Kind() {
		case reflect.Ptr, reflect.Interface, reflect.Struct, reflect.Slice, reflect.Array, reflect.Map:
			for i := 0; i < v.Len(); i++ {
				w.val(v.Index(i))
			}
		}
	case reflect.Array:
		switch v.Type().Elem().Kind() {
		case reflect.Ptr, reflect.Interface, reflect.Struct, reflect.Slice, reflect.Array, reflect.Map:
			for i := 0; i < v.Len(); i++ {
				w.val(v.Index(i))
			}
		}
	}
}
