package hlib

// corpus_lib.go: generator of messages built THROUGH THE PUBLIC API of the library (exported
// constructors, adder methods, exported fields), the way a controller application would do it.
// Nothing here encodes bytes by hand (see corpus_wbuf.go for the independent writer); the
// only library code that runs while a value is being built is what the constructors and
// adders themselves call.
//
// Rules kept by this file: all randomness comes from the *simrt.RNG argument, no Go map is
// ranged over, no time, no goroutines, no package-level variables at all (tables are returned
// by functions as fresh slices), every returned value owns all of its memory.

import (
	"errors"
	"fmt"
	"math/big"
	"net"
	"sort"
	"strings"

	"github.com/contiv/libOpenflow/common"
	"github.com/contiv/libOpenflow/openflow13"
	"github.com/contiv/libOpenflow/protocol"
	"github.com/contiv/libOpenflow/simrt"
	"github.com/contiv/libOpenflow/util"
)

// libByteBudget bounds the (approximate) encoded size of one generated value, so that the
// 16-bit length fields of the protocol never wrap.
const libByteBudget = 20000

type libKind struct {
	name string
	top  bool
}

// libKindTable returns the kinds in their fixed order (a fresh slice each call).
func libKindTable() []libKind {
	t := []libKind{
		// controller -> switch, complete OpenFlow messages
		{"hello", true},
		{"echo_request", true},
		{"echo_reply", true},
		{"features_request", true},
		{"get_config_request", true},
		{"set_config", true},
		{"barrier_request", true},
		{"flow_mod_add", true},
		{"flow_mod_modify", true},
		{"flow_mod_modify_strict", true},
		{"flow_mod_delete", true},
		{"flow_mod_delete_strict", true},
		{"group_mod_add", true},
		{"group_mod_modify", true},
		{"group_mod_delete", true},
		{"packet_out", true},
		{"port_mod", true},
		{"mp_request_desc", true},
		{"mp_request_flow", true},
		{"mp_request_aggregate", true},
		{"mp_request_table", true},
		{"mp_request_port", true},
		{"mp_request_queue", true},
		{"mp_request_group", true},
		{"mp_request_group_desc", true},
		{"mp_request_group_features", true},
		{"mp_request_meter", true},
		{"mp_request_meter_config", true},
		{"mp_request_meter_features", true},
		{"mp_request_table_features", true},
		{"mp_request_port_desc", true},
		{"mp_request_experimenter", true},
		{"nx_set_controller_id", true},
		{"nx_tlv_table_mod", true},
		{"nx_tlv_table_request", true},
		{"nx_set_packet_in_format", true},
		{"nx_set_flow_format", true},
		{"nx_flow_mod_table_id", true},
		{"nx_ct_flush_zone", true},
		{"bundle_control", true},
		{"bundle_add", true},
		// switch -> controller, complete OpenFlow messages (built with the same public API;
		// where the library's encoder does not fill Header.Type / Header.Length the
		// "application" code below does it, as a user of these types has to)
		{"sw_echo_reply", true},
		{"sw_barrier_reply", true},
		{"sw_error", true},
		{"sw_bundle_error", true},
		{"sw_features_reply", true},
		{"sw_get_config_reply", true},
		{"sw_packet_in", true},
		{"sw_flow_removed", true},
		{"sw_port_status", true},
		{"sw_mp_reply_desc", true},
		{"sw_mp_reply_flow", true},
		{"sw_mp_reply_aggregate", true},
		{"sw_mp_reply_table", true},
		{"sw_mp_reply_port", true},
		{"sw_mp_reply_queue", true},
		{"sw_nx_tlv_table_reply", true},
		// sub-structures that are util.Message themselves
		{"of_header", false},
		{"hello_elem_header", false},
		{"hello_elem_versionbitmap", false},
		{"match", false},
		{"match_multi_reg", false},
		{"instr_goto_table", false},
		{"instr_write_metadata", false},
		{"instr_write_actions", false},
		{"instr_apply_actions", false},
		{"instr_clear_actions", false},
		{"instr_meter", false},
		{"bucket", false},
		{"learn_spec", false},
		{"learn_spec_header", false},
		{"learn_spec_field", false},
		{"phy_port", false},
		{"body_flow_stats_request", false},
		{"body_aggregate_stats_request", false},
		{"body_port_stats_request", false},
		{"body_queue_stats_request", false},
		{"body_desc_stats", false},
		{"body_flow_stats", false},
		{"body_aggregate_stats", false},
		{"body_table_stats", false},
		{"body_port_stats", false},
		{"body_queue_stats", false},
		{"body_controller_id", false},
		{"body_tlv_table_map", false},
		{"body_tlv_table_mod", false},
		{"body_tlv_table_reply", false},
		{"body_bundle_control", false},
		{"body_bundle_add", false},
		{"value_port_field", false},
		{"value_uint16", false},
		{"value_uint32", false},
		{"value_byte_array", false},
		{"value_buffer", false},
		// protocol package values
		{"proto_eth", false},
		{"proto_eth_vlan", false},
		{"proto_eth_arp", false},
		{"proto_eth_ipv4_icmp", false},
		{"proto_eth_ipv4_udp", false},
		{"proto_eth_ipv4_tcp", false},
		{"proto_eth_ipv4_igmp", false},
		{"proto_eth_ipv4_dhcp", false},
		{"proto_eth_ipv6", false},
		{"proto_eth_lldp", false},
		{"proto_vlan", false},
		{"proto_arp_request", false},
		{"proto_arp_reply", false},
		{"proto_ipv4", false},
		{"proto_ipv4_options", false},
		{"proto_ipv6", false},
		{"proto_ipv6_ext", false},
		{"proto_ipv6_hbh", false},
		{"proto_ipv6_routing", false},
		{"proto_ipv6_fragment", false},
		{"proto_ipv6_option", false},
		{"proto_icmp", false},
		{"proto_udp", false},
		{"proto_tcp", false},
		{"proto_igmpv1_query", false},
		{"proto_igmpv1_report", false},
		{"proto_igmpv2_query", false},
		{"proto_igmpv2_report", false},
		{"proto_igmpv2_leave", false},
		{"proto_igmpv3_query", false},
		{"proto_igmpv3_report", false},
		{"proto_igmpv3_group_record", false},
		{"proto_dhcp", false},
		{"proto_dhcp_discover", false},
		{"proto_dhcp_offer", false},
		{"proto_dhcp_request", false},
		{"proto_dhcp_ack", false},
		{"proto_dhcp_nak", false},
		{"proto_lldp", false},
	}
	for _, n := range libFieldNames() {
		t = append(t, libKind{"field_" + n, false})
	}
	for _, n := range libActionNames() {
		t = append(t, libKind{"action_" + n, false})
	}
	return t
}

// LibKinds lists the message/value kinds, fixed order.
func LibKinds() []string {
	t := libKindTable()
	out := make([]string, 0, len(t))
	for _, k := range t {
		out = append(out, k.name)
	}
	return out
}

// LibTopLevel reports whether values of the kind are complete OpenFlow messages (start with an
// OpenFlow header, can be sent on a connection) as opposed to packet headers / sub-structures.
func LibTopLevel(kind string) bool {
	for _, k := range libKindTable() {
		if k.name == kind {
			return k.top
		}
	}
	switch kind {
	case "bundle_add_props", "hello_unknown_elem", "packet_out_nil_data", "mp_request_nil_body":
		return true
	}
	return false
}

// LibBrokenKinds lists extra kinds that LibMessage can build but that are NOT part of LibKinds
// because, on the pinned tree, the library cannot get them through Len + one MarshalBinary
// (or, for hello_unknown_elem, through Parse) without panicking or hanging. See LibBrokenWhy.
func LibBrokenKinds() []string {
	return []string{
		"bundle_add_props",
		"hello_unknown_elem",
		"action_nx_nat_proto_min_only",
		"proto_ipv6_routing_nil_data",
		"proto_ipv6_nil_data",
		"packet_out_nil_data",
		"mp_request_nil_body",
	}
}

// LibBrokenWhy says what goes wrong with a kind of LibBrokenKinds ("" for any other kind).
func LibBrokenWhy(kind string) string {
	switch kind {
	case "bundle_add_props":
		return "BundlePropertyExperimenter.MarshalBinary writes into a zero-length slice: MarshalBinary always panics (Len works)"
	case "hello_unknown_elem":
		return "encodes fine, but common.Hello.UnmarshalBinary (openflow13.Parse) never advances over an element whose type is not the version bitmap: Parse NEVER RETURNS"
	case "action_nx_nat_proto_min_only":
		return "NXActionCTNAT.MarshalBinary dereferences rangeProtoMax when only rangeProtoMin is set: MarshalBinary panics (Len works)"
	case "proto_ipv6_routing_nil_data":
		return "RoutingHeader.MarshalBinary calls h.Data.Bytes() on a nil *util.Buffer: MarshalBinary panics (Len works)"
	case "proto_ipv6_nil_data":
		return "IPv6.Len calls i.Data.Len() on a nil interface: Len and MarshalBinary panic"
	case "packet_out_nil_data":
		return "PacketOut.Len calls p.Data.Len() on a nil interface: Len and MarshalBinary panic when the application sets no Data"
	case "mp_request_nil_body":
		return "MultipartRequest.Len calls s.Body.Len() on a nil interface: Len and MarshalBinary panic for body-less requests"
	}
	return ""
}

// LibMessage builds one fresh, independent value of that kind using only the library's exported
// constructors, adder methods and exported fields. All randomness comes from r.
func LibMessage(kind string, r *simrt.RNG) (util.Message, error) {
	if r == nil {
		return nil, errors.New("hlib: nil RNG")
	}
	g := &libGen{r: r}
	return g.build(kind)
}

// ---------------------------------------------------------------------------------------
// adapters: DHCP and LLDP have Len/Read/Write but no MarshalBinary; an application serialises
// them with Read into a Len()-sized buffer. The adapters do exactly that, nothing more.

// LibDHCP makes a *protocol.DHCP usable as util.Message.
type LibDHCP struct{ *protocol.DHCP }

// MarshalBinary serialises with DHCP.Read into a buffer of DHCP.Len() bytes.
func (d *LibDHCP) MarshalBinary() ([]byte, error) {
	buf := make([]byte, int(d.DHCP.Len()))
	n, err := d.DHCP.Read(buf)
	if err != nil {
		return nil, err
	}
	if n > len(buf) {
		return nil, fmt.Errorf("DHCP.Read reported %d bytes for a %d byte buffer", n, len(buf))
	}
	return buf[:n], nil
}

// UnmarshalBinary parses with DHCP.Write.
func (d *LibDHCP) UnmarshalBinary(data []byte) error {
	_, err := d.DHCP.Write(data)
	return err
}

// LibLLDP makes a *protocol.LLDP usable as util.Message.
type LibLLDP struct{ *protocol.LLDP }

// MarshalBinary serialises with LLDP.Read into a buffer of LLDP.Len() bytes.
func (d *LibLLDP) MarshalBinary() ([]byte, error) {
	buf := make([]byte, int(d.LLDP.Len()))
	n, err := d.LLDP.Read(buf)
	if err != nil {
		return nil, err
	}
	if n > len(buf) {
		return nil, fmt.Errorf("LLDP.Read reported %d bytes for a %d byte buffer", n, len(buf))
	}
	return buf[:n], nil
}

// UnmarshalBinary parses with LLDP.Write.
func (d *LibLLDP) UnmarshalBinary(data []byte) error {
	_, err := d.LLDP.Write(data)
	return err
}

// ---------------------------------------------------------------------------------------
// generator state and scalar helpers

type libGen struct {
	r    *simrt.RNG
	used int  // approximate number of encoded bytes produced so far
	big  bool // a 30+ list was already produced for this value
}

func (g *libGen) room() bool { return g.used < libByteBudget }

func (g *libGen) spend(n uint16) { g.used += int(n) }

// listLen: 0..8, sometimes 30+ (at most one such list per value).
func (g *libGen) listLen() int {
	switch g.r.Pick(20, 45, 28, 7) {
	case 0:
		return 0
	case 1:
		return g.r.Range(1, 3)
	case 2:
		return g.r.Range(4, 8)
	}
	n := g.r.Range(30, 40)
	if g.big {
		return 1 + n%3
	}
	g.big = true
	return n
}

func (g *libGen) smallLen() int { return g.r.Pick(30, 30, 20, 12, 8) }

func (g *libGen) u8() uint8 { return uint8(g.r.Uint64()) }

func (g *libGen) u16() uint16 {
	switch g.r.Pick(60, 8, 8, 24) {
	case 1:
		return 0
	case 2:
		return 0xffff
	case 3:
		return uint16(g.r.Intn(256))
	}
	return uint16(g.r.Uint64())
}

func (g *libGen) u32() uint32 {
	switch g.r.Pick(60, 8, 8, 24) {
	case 1:
		return 0
	case 2:
		return 0xffffffff
	case 3:
		return uint32(g.r.Intn(65536))
	}
	return uint32(g.r.Uint64())
}

func (g *libGen) u64() uint64 {
	switch g.r.Pick(60, 8, 8, 24) {
	case 1:
		return 0
	case 2:
		return ^uint64(0)
	case 3:
		return uint64(g.r.Intn(1 << 20))
	}
	return g.r.Uint64()
}

func (g *libGen) bytes(n int) []byte { return g.r.Bytes(n) }

func (g *libGen) mac() net.HardwareAddr {
	switch g.r.Pick(70, 10, 10, 10) {
	case 1:
		return net.HardwareAddr{0xff, 0xff, 0xff, 0xff, 0xff, 0xff}
	case 2:
		return net.HardwareAddr{0x01, 0x80, 0xc2, 0x00, 0x00, 0x0e}
	case 3:
		return net.HardwareAddr(make([]byte, 6))
	}
	return net.HardwareAddr(g.r.Bytes(6))
}

func (g *libGen) macMask() net.HardwareAddr {
	switch g.r.Pick(30, 30, 20, 20) {
	case 0:
		return net.HardwareAddr{0xff, 0xff, 0xff, 0x00, 0x00, 0x00}
	case 1:
		return net.HardwareAddr{0x01, 0x00, 0x00, 0x00, 0x00, 0x00}
	case 2:
		return net.HardwareAddr{0xff, 0xff, 0xff, 0xff, 0xff, 0xff}
	}
	return net.HardwareAddr(g.r.Bytes(6))
}

func (g *libGen) macMaskPtr() *net.HardwareAddr {
	if !g.r.Chance(0.5) {
		return nil
	}
	m := g.macMask()
	return &m
}

// ip4 returns an IPv4 address, in 4-byte form or (as net.ParseIP / net.IPv4 give it) 16-byte form.
func (g *libGen) ip4() net.IP {
	b := g.r.Bytes(4)
	if g.r.Chance(0.3) {
		return net.IPv4(b[0], b[1], b[2], b[3])
	}
	return net.IP(b)
}

func (g *libGen) ip4short() net.IP { return net.IP(g.r.Bytes(4)) }

func (g *libGen) ip4Mask() net.IP {
	m := net.CIDRMask(g.r.Range(0, 32), 32)
	out := make(net.IP, 4)
	copy(out, m)
	if g.r.Chance(0.2) {
		return net.IPv4(out[0], out[1], out[2], out[3])
	}
	return out
}

func (g *libGen) ip4MaskPtr() *net.IP {
	if !g.r.Chance(0.5) {
		return nil
	}
	m := g.ip4Mask()
	return &m
}

func (g *libGen) ip6() net.IP {
	b := g.r.Bytes(16)
	switch g.r.Pick(60, 20, 20) {
	case 1:
		b[0], b[1] = 0xfe, 0x80
	case 2:
		b[0], b[1] = 0xff, 0x02
	}
	return net.IP(b)
}

func (g *libGen) ip6Mask() net.IP {
	m := net.CIDRMask(g.r.Range(0, 128), 128)
	out := make(net.IP, 16)
	copy(out, m)
	return out
}

func (g *libGen) ip6MaskPtr() *net.IP {
	if !g.r.Chance(0.5) {
		return nil
	}
	m := g.ip6Mask()
	return &m
}

func (g *libGen) group4() net.IP {
	b := g.r.Bytes(4)
	b[0] = 224 + b[0]%16
	return net.IP(b)
}

func (g *libGen) u16Ptr() *uint16 {
	if !g.r.Chance(0.5) {
		return nil
	}
	v := g.u16()
	return &v
}

func (g *libGen) u32Ptr() *uint32 {
	if !g.r.Chance(0.5) {
		return nil
	}
	v := g.u32()
	return &v
}

func (g *libGen) u64Ptr() *uint64 {
	if !g.r.Chance(0.5) {
		return nil
	}
	v := g.u64()
	return &v
}

func (g *libGen) ofPort() uint32 {
	switch g.r.Pick(55, 5, 5, 5, 5, 5, 5, 5, 5, 5) {
	case 1:
		return openflow13.P_IN_PORT
	case 2:
		return openflow13.P_TABLE
	case 3:
		return openflow13.P_NORMAL
	case 4:
		return openflow13.P_FLOOD
	case 5:
		return openflow13.P_ALL
	case 6:
		return openflow13.P_CONTROLLER
	case 7:
		return openflow13.P_LOCAL
	case 8:
		return openflow13.P_ANY
	case 9:
		return uint32(g.r.Uint64())
	}
	return uint32(g.r.Range(1, 4096))
}

func (g *libGen) tableID() uint8 {
	if g.r.Chance(0.1) {
		return openflow13.OFPTT_ALL
	}
	return uint8(g.r.Intn(255))
}

func (g *libGen) groupID() uint32 {
	switch g.r.Pick(80, 10, 10) {
	case 1:
		return openflow13.OFPG_ALL
	case 2:
		return openflow13.OFPG_ANY
	}
	return uint32(g.r.Intn(1 << 16))
}

func (g *libGen) text(max int) string {
	n := g.r.Range(0, max)
	b := make([]byte, n)
	for i := range b {
		b[i] = byte('a' + g.r.Intn(26))
	}
	return string(b)
}

// nxRange builds a bit range inside a field of nbits bits through one of the two constructors.
func (g *libGen) nxRange(nbits int) *openflow13.NXRange {
	if nbits < 1 {
		nbits = 1
	}
	if nbits > 64 {
		nbits = 64
	}
	start := g.r.Intn(nbits)
	end := g.r.Range(start, nbits-1)
	if g.r.Chance(0.5) {
		return openflow13.NewNXRange(start, end)
	}
	return openflow13.NewNXRangeByOfsNBits(start, end-start+1)
}

// ---------------------------------------------------------------------------------------
// match fields

type libOxx struct {
	name string
	n    int // value width in bytes, as registered by the library
}

// libOxxNames lists the names known to openflow13.FindFieldHeaderByName.
func libOxxNames() []libOxx {
	return []libOxx{
		{"NXM_OF_IN_PORT", 2}, {"NXM_OF_ETH_DST", 6}, {"NXM_OF_ETH_SRC", 6}, {"NXM_OF_ETH_TYPE", 2},
		{"NXM_OF_VLAN_TCI", 2}, {"NXM_OF_IP_TOS", 1}, {"NXM_OF_IP_PROTO", 1}, {"NXM_OF_IP_SRC", 4},
		{"NXM_OF_IP_DST", 4}, {"NXM_OF_TCP_SRC", 2}, {"NXM_OF_TCP_DST", 2}, {"NXM_OF_UDP_SRC", 2},
		{"NXM_OF_UDP_DST", 2}, {"NXM_OF_ICMP_TYPE", 1}, {"NXM_OF_ICMP_CODE", 1}, {"NXM_OF_ARP_OP", 2},
		{"NXM_OF_ARP_SPA", 4}, {"NXM_OF_ARP_TPA", 4},
		{"NXM_NX_REG0", 4}, {"NXM_NX_REG1", 4}, {"NXM_NX_REG2", 4}, {"NXM_NX_REG3", 4},
		{"NXM_NX_REG4", 4}, {"NXM_NX_REG5", 4}, {"NXM_NX_REG6", 4}, {"NXM_NX_REG7", 4},
		{"NXM_NX_REG8", 4}, {"NXM_NX_REG9", 4}, {"NXM_NX_REG10", 4}, {"NXM_NX_REG11", 4},
		{"NXM_NX_REG12", 4}, {"NXM_NX_REG13", 4}, {"NXM_NX_REG14", 4}, {"NXM_NX_REG15", 4},
		{"NXM_NX_TUN_ID", 8}, {"NXM_NX_ARP_SHA", 6}, {"NXM_NX_ARP_THA", 6}, {"NXM_NX_IPV6_SRC", 16},
		{"NXM_NX_IPV6_DST", 16}, {"NXM_NX_ICMPV6_TYPE", 1}, {"NXM_NX_ICMPV6_CODE", 1},
		{"NXM_NX_ND_TARGET", 16}, {"NXM_NX_ND_SLL", 6}, {"NXM_NX_ND_TLL", 6}, {"NXM_NX_IP_FRAG", 1},
		{"NXM_NX_IPV6_LABEL", 1}, {"NXM_NX_IP_ECN", 1}, {"NXM_NX_IP_TTL", 1}, {"NXM_NX_MPLS_TTL", 1},
		{"NXM_NX_TUN_IPV4_SRC", 4}, {"NXM_NX_TUN_IPV4_DST", 4}, {"NXM_NX_PKT_MARK", 4},
		{"NXM_NX_TCP_FLAGS", 2}, {"NXM_NX_CONJ_ID", 4}, {"NXM_NX_TUN_GBP_ID", 2},
		{"NXM_NX_TUN_GBP_FLAGS", 1}, {"NXM_NX_TUN_FLAGS", 2}, {"NXM_NX_CT_STATE", 4},
		{"NXM_NX_CT_ZONE", 2}, {"NXM_NX_CT_MARK", 4}, {"NXM_NX_CT_LABEL", 16},
		{"NXM_NX_TUN_IPV6_SRC", 16}, {"NXM_NX_TUN_IPV6_DST", 16}, {"NXM_NX_CT_NW_PROTO", 1},
		{"NXM_NX_CT_NW_SRC", 4}, {"NXM_NX_CT_NW_DST", 4}, {"NXM_NX_CT_IPV6_SRC", 16},
		{"NXM_NX_CT_IPV6_DST", 16}, {"NXM_NX_CT_TP_SRC", 2}, {"NXM_NX_CT_TP_DST", 2},
		{"NXM_NX_TUN_METADATA0", 128}, {"NXM_NX_TUN_METADATA1", 128}, {"NXM_NX_TUN_METADATA2", 128},
		{"NXM_NX_TUN_METADATA3", 128}, {"NXM_NX_TUN_METADATA4", 128}, {"NXM_NX_TUN_METADATA5", 128},
		{"NXM_NX_TUN_METADATA6", 128}, {"NXM_NX_TUN_METADATA7", 128},
		{"NXM_NX_XXREG0", 16}, {"NXM_NX_XXREG1", 16}, {"NXM_NX_XXREG2", 16}, {"NXM_NX_XXREG3", 16},
		{"OXM_OF_IN_PORT", 4}, {"OXM_OF_IN_PHY_PORT", 4}, {"OXM_OF_METADATA", 8}, {"OXM_OF_ETH_DST", 6},
		{"OXM_OF_ETH_SRC", 6}, {"OXM_OF_ETH_TYPE", 2}, {"OXM_OF_VLAN_VID", 2}, {"OXM_OF_VLAN_PCP", 1},
		{"OXM_OF_IP_DSCP", 1}, {"OXM_OF_IP_ECN", 1}, {"OXM_OF_IP_PROTO", 1}, {"OXM_OF_IPV4_SRC", 4},
		{"OXM_OF_IPV4_DST", 4}, {"OXM_OF_TCP_SRC", 2}, {"OXM_OF_TCP_DST", 2}, {"OXM_OF_UDP_SRC", 2},
		{"OXM_OF_UDP_DST", 2}, {"OXM_OF_SCTP_SRC", 2}, {"OXM_OF_SCTP_DST", 2}, {"OXM_OF_ICMPV4_TYPE", 1},
		{"OXM_OF_ICMPV4_CODE", 1}, {"OXM_OF_ARP_OP", 2}, {"OXM_OF_ARP_SPA", 4}, {"OXM_OF_ARP_TPA", 4},
		{"OXM_OF_ARP_SHA", 6}, {"OXM_OF_ARP_THA", 6}, {"OXM_OF_IPV6_SRC", 16}, {"OXM_OF_IPV6_DST", 16},
		{"OXM_OF_IPV6_FLABEL", 4}, {"OXM_OF_ICMPV6_TYPE", 1}, {"OXM_OF_ICMPV6_CODE", 1},
		{"OXM_OF_IPV6_ND_TARGET", 16}, {"OXM_OF_IPV6_ND_SLL", 6}, {"OXM_OF_IPV6_ND_TLL", 6},
		{"OXM_OF_MPLS_LABEL", 4}, {"OXM_OF_MPLS_TC", 1}, {"OXM_OF_MPLS_BOS", 1}, {"OXM_OF_PBB_ISID", 3},
		{"OXM_OF_TUNNEL_ID", 8}, {"OXM_OF_IPV6_EXTHDR", 2},
	}
}

func (g *libGen) oxxName() libOxx {
	names := libOxxNames()
	e := names[g.r.Intn(len(names))]
	if g.r.Chance(0.1) {
		e.name = strings.ToLower(e.name) // the lookup is case-insensitive
	}
	return e
}

// hdrField returns a value-less field header (as used by reg-load/move, output-reg, learn, ct zone).
func (g *libGen) hdrField() (*openflow13.MatchField, error) {
	var name string
	if g.r.Chance(0.5) {
		name = fmt.Sprintf("NXM_NX_REG%d", g.r.Intn(16))
	} else {
		name = g.oxxName().name
	}
	return openflow13.FindFieldHeaderByName(name, false)
}

// libFieldNames: one entry per way of building a match field.
func libFieldNames() []string {
	return []string{
		"in_port", "eth_dst", "eth_src", "eth_type", "vlan_vid", "mpls_label", "mpls_bos",
		"ipv4_src", "ipv4_dst", "ipv6_src", "ipv6_dst", "ipv6_flabel", "ip_proto", "ip_dscp",
		"tunnel_id", "metadata", "tcp_src", "tcp_dst", "udp_src", "udp_dst", "tcp_flags", "arp_op",
		"tun_ipv4_src", "tun_ipv4_dst", "sctp_dst", "sctp_src", "arp_tha", "arp_sha", "arp_tpa",
		"arp_spa", "actset_output", "icmp_code", "icmp_type",
		"nx_reg", "nx_tun_metadata", "nx_ct_state", "nx_ct_zone", "nx_ct_mark", "nx_ct_label",
		"nx_conj_id", "nx_arp_sha", "nx_arp_tha", "nx_arp_spa", "nx_arp_tpa",
		"by_name", "generic",
	}
}

func (g *libGen) ctStates() *openflow13.CTStates {
	s := openflow13.NewCTStates()
	for bit := 0; bit < 8; bit++ {
		c := g.r.Pick(50, 25, 25)
		if c == 0 {
			continue
		}
		set := c == 1
		switch bit {
		case 0:
			if set {
				s.SetNew()
			} else {
				s.UnsetNew()
			}
		case 1:
			if set {
				s.SetEst()
			} else {
				s.UnsetEst()
			}
		case 2:
			if set {
				s.SetRel()
			} else {
				s.UnsetRel()
			}
		case 3:
			if set {
				s.SetRpl()
			} else {
				s.UnsetRpl()
			}
		case 4:
			if set {
				s.SetInv()
			} else {
				s.UnsetInv()
			}
		case 5:
			if set {
				s.SetTrk()
			} else {
				s.UnsetTrk()
			}
		case 6:
			if set {
				s.SetSNAT()
			} else {
				s.UnsetSNAT()
			}
		case 7:
			if set {
				s.SetDNAT()
			} else {
				s.UnsetDNAT()
			}
		}
	}
	return s
}

func (g *libGen) regField(masked bool) *openflow13.MatchField {
	idx := g.r.Intn(16)
	data := g.u32()
	if !masked && g.r.Chance(0.5) {
		return openflow13.NewRegMatchField(idx, data, nil)
	}
	rng := g.nxRange(32)
	return openflow13.NewRegMatchField(idx, data>>uint(32-int(rng.GetNbits()))<<rng.GetOfs(), rng)
}

// typedValue returns a value of one of the library's exported value types of width n bytes.
func (g *libGen) typedValue(n int) util.Message {
	raw := func() util.Message {
		return &openflow13.ByteArrayField{Data: g.bytes(n), Length: uint8(n)}
	}
	switch n {
	case 1:
		switch g.r.Pick(2, 1, 1, 1, 1, 1) {
		case 1:
			return &openflow13.IcmpTypeField{Type: g.u8()}
		case 2:
			return &openflow13.IcmpCodeField{Code: g.u8()}
		case 3:
			return &openflow13.MplsBosField{MplsBos: uint8(g.r.Intn(2))}
		case 4:
			return new(openflow13.IpProtoField)
		case 5:
			return new(openflow13.IpDscpField)
		}
	case 2:
		switch g.r.Pick(2, 2, 1, 1, 1, 1, 1) {
		case 1:
			return &openflow13.Uint16Message{Data: g.u16()}
		case 2:
			return &openflow13.EthTypeField{EthType: g.u16()}
		case 3:
			return &openflow13.VlanIdField{VlanId: g.u16()}
		case 4:
			return &openflow13.TcpFlagsField{TcpFlags: g.u16()}
		case 5:
			return &openflow13.ArpOperField{ArpOper: g.u16()}
		case 6:
			return openflow13.NewPortField(g.u16())
		}
	case 3:
		if g.r.Chance(0.3) {
			// Len() says 3, MarshalBinary gives 4 bytes
			return &openflow13.IPv6FlowLabelField{FlowLabel: g.u32() & 0xfffff}
		}
	case 4:
		switch g.r.Pick(2, 3, 1, 1, 1, 1, 1, 1, 1) {
		case 1:
			return &openflow13.Uint32Message{Data: g.u32()}
		case 2:
			return &openflow13.InPortField{InPort: g.ofPort()}
		case 3:
			return &openflow13.Ipv4SrcField{Ipv4Src: g.ip4()}
		case 4:
			return &openflow13.Ipv4DstField{Ipv4Dst: g.ip4()}
		case 5:
			return &openflow13.ArpXPaField{ArpPa: g.ip4()}
		case 6:
			return &openflow13.TunnelIpv4SrcField{TunnelIpv4Src: g.ip4()}
		case 7:
			return &openflow13.TunnelIpv4DstField{TunnelIpv4Dst: g.ip4()}
		case 8:
			if g.r.Chance(0.5) {
				return &openflow13.MplsLabelField{MplsLabel: g.u32() & 0xfffff}
			}
			return &openflow13.ActsetOutputField{OutputPort: g.ofPort()}
		}
	case 6:
		switch g.r.Pick(2, 1, 1, 1) {
		case 1:
			return &openflow13.EthDstField{EthDst: g.mac()}
		case 2:
			return &openflow13.EthSrcField{EthSrc: g.mac()}
		case 3:
			return &openflow13.ArpXHaField{ArpHa: g.mac()}
		}
	case 8:
		switch g.r.Pick(2, 1, 1) {
		case 1:
			return &openflow13.MetadataField{Metadata: g.u64()}
		case 2:
			return &openflow13.TunnelIdField{TunnelId: g.u64()}
		}
	case 16:
		switch g.r.Pick(2, 1, 1) {
		case 1:
			return &openflow13.Ipv6SrcField{Ipv6Src: g.ip6()}
		case 2:
			return &openflow13.Ipv6DstField{Ipv6Dst: g.ip6()}
		}
	}
	return raw()
}

// byNameField: FindFieldHeaderByName + exported value types, the way nxext_test.go builds
// NXM fields that have no dedicated constructor.
func (g *libGen) byNameField() (*openflow13.MatchField, error) {
	e := g.oxxName()
	masked := g.r.Chance(0.4)
	f, err := openflow13.FindFieldHeaderByName(e.name, masked)
	if err != nil {
		return nil, err
	}
	n := e.n
	if n == 128 {
		// tunnel metadata is variable length: the application states the real width
		n = 4 * g.r.Range(1, 31)
		f.Length = uint8(n)
		if masked {
			f.Length = uint8(2 * n)
		}
		f.Value = &openflow13.ByteArrayField{Data: g.bytes(n), Length: uint8(n)}
		if masked {
			f.Mask = &openflow13.ByteArrayField{Data: g.bytes(n), Length: uint8(n)}
		}
		return f, nil
	}
	f.Value = g.typedValue(n)
	if masked {
		f.Mask = g.typedValue(n)
	}
	return f, nil
}

// bigBits returns a non-negative integer of at most nbits bits.
func (g *libGen) bigBits(nbits int) *big.Int {
	v := new(big.Int)
	if nbits <= 0 {
		return v
	}
	v.SetBytes(g.bytes((nbits + 7) / 8))
	m := new(big.Int).Lsh(big.NewInt(1), uint(nbits))
	m.Sub(m, big.NewInt(1))
	return v.And(v, m)
}

// genericField goes through the generic openflow13.NewMatchField[Int, Mask] with many
// instantiations. Arguments are kept inside the field width: a value wider than the field
// makes the constructor panic (negative slice index in big2byte), and the masked form of the
// 128-byte TUN_METADATA names always does (registered width*2 wraps uint8).
func (g *libGen) genericField() (*openflow13.MatchField, error) {
	e := g.oxxName()
	nmask := g.r.Pick(35, 15, 30, 20)
	nbits := e.n * 8
	if e.n > 16 {
		nmask = 0
	}
	var start, length, vlen int
	switch nmask {
	case 0:
		vlen = g.r.Range(0, nbits)
	case 1:
		vlen = g.r.Range(0, nbits)
		start = g.r.Range(0, (nbits-vlen)/2)
	default:
		length = g.r.Range(1, nbits)
		start = g.r.Range(0, nbits-length)
		vlen = g.r.Range(0, length)
	}
	val := g.bigBits(vlen)
	var masks []int
	switch nmask {
	case 1:
		masks = []int{start}
	case 2:
		masks = []int{start, length}
	case 3:
		flag := g.r.Intn(2)
		if flag == 0 {
			val.Lsh(val, uint(start)) // the caller pre-shifts, the library must not
		}
		masks = []int{start, length, flag}
	}
	bl := val.BitLen()
	// eligible data types for this value
	const (
		tU8 = iota
		tU16
		tI32
		tInt
		tU32
		tI64
		tU64
		tUint
		tBig
		tBytes
		tIP
		tMAC
	)
	cands := []int{tBig, tBytes}
	if bl <= 8 {
		cands = append(cands, tU8)
	}
	if bl <= 16 {
		cands = append(cands, tU16)
	}
	if bl <= 31 {
		cands = append(cands, tI32, tInt)
	}
	if bl <= 32 {
		cands = append(cands, tU32)
	}
	if bl <= 63 {
		cands = append(cands, tI64)
	}
	if bl <= 64 {
		cands = append(cands, tU64, tUint)
	}
	if e.n == 16 {
		cands = append(cands, tIP)
	}
	if e.n == 6 {
		cands = append(cands, tMAC)
	}
	padded := func(n int) []byte {
		b := val.Bytes()
		if len(b) >= n {
			return b
		}
		out := make([]byte, n)
		copy(out[n-len(b):], b)
		return out
	}
	small := g.r.Chance(0.3) // use a narrow unsigned mask type
	u8m := make([]uint8, len(masks))
	u16m := make([]uint16, len(masks))
	for i, m := range masks {
		u8m[i] = uint8(m)
		u16m[i] = uint16(m)
		if m > 255 {
			small = false
		}
	}
	x := val.Uint64()
	switch cands[g.r.Intn(len(cands))] {
	case tU8:
		return openflow13.NewMatchField(e.name, uint8(x), masks...)
	case tU16:
		if small {
			return openflow13.NewMatchField(e.name, uint16(x), u8m...)
		}
		return openflow13.NewMatchField(e.name, uint16(x), masks...)
	case tI32:
		return openflow13.NewMatchField(e.name, int32(x), masks...)
	case tInt:
		return openflow13.NewMatchField(e.name, int(x), masks...)
	case tU32:
		if small {
			return openflow13.NewMatchField(e.name, uint32(x), u16m...)
		}
		return openflow13.NewMatchField(e.name, uint32(x), masks...)
	case tI64:
		return openflow13.NewMatchField(e.name, int64(x), masks...)
	case tU64:
		if small {
			return openflow13.NewMatchField(e.name, x, u8m...)
		}
		return openflow13.NewMatchField(e.name, x, masks...)
	case tUint:
		return openflow13.NewMatchField(e.name, uint(x), masks...)
	case tBytes:
		return openflow13.NewMatchField(e.name, padded(g.r.Range(0, e.n)), masks...)
	case tIP:
		return openflow13.NewMatchField(e.name, net.IP(padded(16)), masks...)
	case tMAC:
		return openflow13.NewMatchField(e.name, net.HardwareAddr(padded(6)), masks...)
	}
	return openflow13.NewMatchField(e.name, val, masks...)
}

func (g *libGen) ipProto() uint8 {
	switch g.r.Pick(15, 10, 25, 25, 10, 5, 10) {
	case 0:
		return 1
	case 1:
		return 2
	case 2:
		return 6
	case 3:
		return 17
	case 4:
		return 58
	case 5:
		return 132
	}
	return g.u8()
}

func (g *libGen) field(name string) (*openflow13.MatchField, error) {
	switch name {
	case "in_port":
		return openflow13.NewInPortField(g.ofPort()), nil
	case "eth_dst":
		return openflow13.NewEthDstField(g.mac(), g.macMaskPtr()), nil
	case "eth_src":
		return openflow13.NewEthSrcField(g.mac(), g.macMaskPtr()), nil
	case "eth_type":
		switch g.r.Pick(30, 20, 20, 10, 20) {
		case 0:
			return openflow13.NewEthTypeField(protocol.IPv4_MSG), nil
		case 1:
			return openflow13.NewEthTypeField(protocol.ARP_MSG), nil
		case 2:
			return openflow13.NewEthTypeField(protocol.IPv6_MSG), nil
		case 3:
			return openflow13.NewEthTypeField(protocol.LLDP_MSG), nil
		}
		return openflow13.NewEthTypeField(g.u16()), nil
	case "vlan_vid":
		var mask *uint16
		switch g.r.Pick(50, 20, 15, 15) {
		case 1:
			m := uint16(0x1fff)
			mask = &m
		case 2:
			m := uint16(openflow13.OFPVID_PRESENT)
			mask = &m
		case 3:
			m := g.u16()
			mask = &m
		}
		return openflow13.NewVlanIdField(uint16(g.r.Intn(4096)), mask), nil
	case "mpls_label":
		return openflow13.NewMplsLabelField(uint32(g.r.Intn(1 << 20))), nil
	case "mpls_bos":
		return openflow13.NewMplsBosField(uint8(g.r.Intn(2))), nil
	case "ipv4_src":
		return openflow13.NewIpv4SrcField(g.ip4(), g.ip4MaskPtr()), nil
	case "ipv4_dst":
		return openflow13.NewIpv4DstField(g.ip4(), g.ip4MaskPtr()), nil
	case "ipv6_src":
		return openflow13.NewIpv6SrcField(g.ip6(), g.ip6MaskPtr()), nil
	case "ipv6_dst":
		return openflow13.NewIpv6DstField(g.ip6(), g.ip6MaskPtr()), nil
	case "ipv6_flabel":
		return openflow13.NewIPV6FlowLabelField(uint32(g.r.Intn(1<<20)), g.u32Ptr()), nil
	case "ip_proto":
		return openflow13.NewIpProtoField(g.ipProto()), nil
	case "ip_dscp":
		return openflow13.NewIpDscpField(uint8(g.r.Intn(64))), nil
	case "tunnel_id":
		return openflow13.NewTunnelIdField(g.u64()), nil
	case "metadata":
		return openflow13.NewMetadataField(g.u64(), g.u64Ptr()), nil
	case "tcp_src":
		return openflow13.NewTcpSrcField(g.u16()), nil
	case "tcp_dst":
		return openflow13.NewTcpDstField(g.u16()), nil
	case "udp_src":
		return openflow13.NewUdpSrcField(g.u16()), nil
	case "udp_dst":
		return openflow13.NewUdpDstField(g.u16()), nil
	case "tcp_flags":
		return openflow13.NewTcpFlagsField(uint16(g.r.Intn(1<<12)), g.u16Ptr()), nil
	case "arp_op":
		return openflow13.NewArpOperField(uint16(g.r.Range(1, 2))), nil
	case "tun_ipv4_src":
		return openflow13.NewTunnelIpv4SrcField(g.ip4(), g.ip4MaskPtr()), nil
	case "tun_ipv4_dst":
		return openflow13.NewTunnelIpv4DstField(g.ip4(), g.ip4MaskPtr()), nil
	case "sctp_dst":
		return openflow13.NewSctpDstField(g.u16()), nil
	case "sctp_src":
		return openflow13.NewSctpSrcField(g.u16()), nil
	case "arp_tha":
		return openflow13.NewArpThaField(g.mac()), nil
	case "arp_sha":
		return openflow13.NewArpShaField(g.mac()), nil
	case "arp_tpa":
		return openflow13.NewArpTpaField(g.ip4()), nil
	case "arp_spa":
		return openflow13.NewArpSpaField(g.ip4()), nil
	case "actset_output":
		return openflow13.NewActsetOutputField(g.ofPort()), nil
	case "icmp_code":
		return openflow13.NewIcmpCodeField(g.u8()), nil
	case "icmp_type":
		return openflow13.NewIcmpTypeField(g.u8()), nil
	case "nx_reg":
		return g.regField(false), nil
	case "nx_tun_metadata":
		n := 4 * g.r.Range(1, 31)
		data := g.bytes(n)
		var mask []byte
		if g.r.Chance(0.5) {
			mask = g.bytes(n)
		}
		return openflow13.NewTunMetadataField(g.r.Intn(8), data, mask), nil
	case "nx_ct_state":
		return openflow13.NewCTStateMatchField(g.ctStates()), nil
	case "nx_ct_zone":
		return openflow13.NewCTZoneMatchField(g.u16()), nil
	case "nx_ct_mark":
		return openflow13.NewCTMarkMatchField(g.u32(), g.u32Ptr()), nil
	case "nx_ct_label":
		var label [16]byte
		copy(label[:], g.bytes(16))
		var mask *[16]byte
		if g.r.Chance(0.5) {
			var m [16]byte
			copy(m[:], g.bytes(16))
			mask = &m
		}
		return openflow13.NewCTLabelMatchField(label, mask), nil
	case "nx_conj_id":
		return openflow13.NewConjIDMatchField(g.u32()), nil
	case "nx_arp_sha", "nx_arp_tha":
		var mask net.HardwareAddr
		if g.r.Chance(0.5) {
			mask = g.macMask()
		}
		if name == "nx_arp_sha" {
			return openflow13.NewNxARPShaMatchField(g.mac(), mask), nil
		}
		return openflow13.NewNxARPThaMatchField(g.mac(), mask), nil
	case "nx_arp_spa", "nx_arp_tpa":
		var mask net.IP
		if g.r.Chance(0.5) {
			mask = g.ip4Mask()
		}
		if name == "nx_arp_spa" {
			return openflow13.NewNxARPSpaMatchField(g.ip4(), mask), nil
		}
		return openflow13.NewNxARPTpaMatchField(g.ip4(), mask), nil
	case "by_name":
		return g.byNameField()
	case "generic":
		return g.genericField()
	}
	return nil, fmt.Errorf("hlib: unknown field %q", name)
}

func (g *libGen) randField() (*openflow13.MatchField, error) {
	names := libFieldNames()
	f, err := g.field(names[g.r.Intn(len(names))])
	if err != nil {
		return nil, err
	}
	g.spend(f.Len())
	return f, nil
}

// multiReg feeds NewMulitiRegMatch (it merges ranges of the same register). Only masked
// register fields are passed: merging two unmasked fields of one register panics in the
// library (nil Mask type assertion). The result comes out of a Go map, so it is sorted here.
func (g *libGen) multiReg() []*openflow13.MatchField {
	n := g.r.Range(1, 6)
	in := make([]*openflow13.MatchField, 0, n)
	for i := 0; i < n; i++ {
		in = append(in, g.regField(true))
	}
	out := openflow13.NewMulitiRegMatch(in...)
	sort.Slice(out, func(i, j int) bool { return out[i].Field < out[j].Field })
	return out
}

func (g *libGen) fillMatch(m *openflow13.Match, n int) error {
	for i := 0; i < n && g.room(); i++ {
		if g.r.Chance(0.06) {
			for _, f := range g.multiReg() {
				g.spend(f.Len())
				m.AddField(*f)
			}
			continue
		}
		f, err := g.randField()
		if err != nil {
			return err
		}
		m.AddField(*f)
	}
	return nil
}

func (g *libGen) match() (*openflow13.Match, error) {
	m := openflow13.NewMatch()
	if err := g.fillMatch(m, g.listLen()); err != nil {
		return nil, err
	}
	return m, nil
}

// ---------------------------------------------------------------------------------------
// actions

// libActionNames: one entry per way of building an action.
func libActionNames() []string {
	return append(libNestedActionNames(),
		"nx_nat",         // only meaningful inside ct(...): nested there, standalone kind here
		"header_only",    // OFPAT_COPY_TTL_OUT/IN, DEC_MPLS_TTL, POP_PBB: bare ActionHeader, no constructor
		"set_nw_ttl",     // ActionNwTtl, no constructor, no encoder of its own
		"set_mpls_ttl",   // ActionMplsTtl, no constructor, no encoder of its own
		"nx_header_only", // NewNxActionHeader(subtype) for body-less NX actions (exit, ...)
	)
}

// libNestedActionNames: constructor-built actions used inside instructions, buckets,
// packet-out and ct(...).
func libNestedActionNames() []string {
	return []string{
		"output", "set_queue", "group", "dec_nw_ttl", "push_vlan", "push_mpls", "pop_vlan",
		"pop_mpls", "set_field",
		"nx_conjunction", "nx_ct", "nx_reg_load", "nx_reg_move", "nx_resubmit", "nx_resubmit_table",
		"nx_resubmit_table_ct", "nx_resubmit_table_ct_no_in_port", "nx_output_reg",
		"nx_output_reg_max_len", "nx_ct_clear", "nx_dec_ttl", "nx_dec_ttl_cnt_ids", "nx_learn",
		"nx_note", "nx_reg_load2", "nx_controller",
	}
}

func (g *libGen) nat(protoMinOnly bool) *openflow13.NXActionCTNAT {
	nat := openflow13.NewNXActionCTNAT()
	switch g.r.Pick(20, 35, 35, 10) {
	case 1:
		_ = nat.SetSNAT()
	case 2:
		_ = nat.SetDNAT()
	case 3:
		_ = nat.SetSNAT()
		_ = nat.SetDNAT() // refused by the library, error ignored like an application would log it
	}
	if g.r.Chance(0.3) {
		_ = nat.SetPersistent()
	}
	switch g.r.Pick(50, 20, 20, 10) {
	case 1:
		_ = nat.SetProtoHash()
	case 2:
		_ = nat.SetRandom()
	case 3:
		_ = nat.SetRandom()
		_ = nat.SetProtoHash()
	}
	switch g.r.Pick(20, 20, 30, 10, 20) {
	case 1:
		nat.SetRangeIPv4Min(g.ip4())
	case 2:
		nat.SetRangeIPv4Min(g.ip4())
		nat.SetRangeIPv4Max(g.ip4())
	case 3:
		nat.SetRangeIPv6Min(g.ip6())
	case 4:
		nat.SetRangeIPv6Min(g.ip6())
		nat.SetRangeIPv6Max(g.ip6())
	}
	if protoMinOnly {
		lo := g.u16()
		nat.SetRangeProtoMin(&lo)
		return nat
	}
	if g.r.Chance(0.4) {
		lo, hi := g.u16(), g.u16()
		nat.SetRangeProtoMin(&lo)
		nat.SetRangeProtoMax(&hi)
	}
	return nat
}

func (g *libGen) learnSpecHeader(kind int, nBits uint16) *openflow13.NXLearnSpecHeader {
	switch kind {
	case 0:
		return openflow13.NewLearnHeaderMatchFromValue(nBits)
	case 1:
		return openflow13.NewLearnHeaderMatchFromField(nBits)
	case 2:
		return openflow13.NewLearnHeaderLoadFromValue(nBits)
	case 3:
		return openflow13.NewLearnHeaderLoadFromField(nBits)
	}
	return openflow13.NewLearnHeaderOutputFromField(nBits)
}

func (g *libGen) learnSpecField() (*openflow13.NXLearnSpecField, error) {
	h, err := g.hdrField()
	if err != nil {
		return nil, err
	}
	return &openflow13.NXLearnSpecField{Field: h, Ofs: uint16(g.r.Intn(32))}, nil
}

func (g *libGen) learnSpec() (*openflow13.NXLearnSpec, error) {
	kind := g.r.Intn(5)
	nBits := uint16(g.r.Range(1, 64))
	if g.r.Chance(0.1) {
		nBits = uint16(g.r.Range(65, 128))
	}
	s := &openflow13.NXLearnSpec{Header: g.learnSpecHeader(kind, nBits)}
	var err error
	switch kind {
	case 0, 2: // source is an immediate value
		s.SrcValue = g.bytes(int(2 * ((nBits + 15) / 16)))
	default:
		if s.SrcField, err = g.learnSpecField(); err != nil {
			return nil, err
		}
	}
	if kind != 4 {
		if s.DstField, err = g.learnSpecField(); err != nil {
			return nil, err
		}
	}
	g.spend(s.Len())
	return s, nil
}

func (g *libGen) learn() (*openflow13.NXActionLearn, error) {
	a := openflow13.NewNXActionLearn()
	a.IdleTimeout = g.u16()
	a.HardTimeout = g.u16()
	a.Priority = g.u16()
	a.Cookie = g.u64()
	a.Flags = uint16(g.r.Intn(8))
	a.TableID = g.tableID()
	a.FinIdleTimeout = g.u16()
	a.FinHardTimeout = g.u16()
	n := g.listLen()
	for i := 0; i < n && g.room(); i++ {
		s, err := g.learnSpec()
		if err != nil {
			return nil, err
		}
		a.LearnSpecs = append(a.LearnSpecs, s)
	}
	return a, nil
}

// valueField returns a field that carries a value (for set-field / reg-load2).
func (g *libGen) valueField() (*openflow13.MatchField, error) {
	names := libFieldNames()
	return g.field(names[g.r.Intn(len(names))])
}

func (g *libGen) conntrack(depth int) (*openflow13.NXActionConnTrack, error) {
	ct := openflow13.NewNXActionConnTrack()
	if g.r.Chance(0.5) {
		ct.Commit()
	}
	if g.r.Chance(0.2) {
		ct.Force()
	}
	if g.r.Chance(0.6) {
		ct.Table(g.tableID())
	}
	switch g.r.Pick(30, 40, 30) {
	case 1:
		ct.ZoneImm(g.u16())
	case 2:
		h, err := g.hdrField()
		if err != nil {
			return nil, err
		}
		ct.ZoneRange(h, g.nxRange(16))
	}
	if g.r.Chance(0.2) {
		ct.Alg = uint16(21 + 48*g.r.Intn(2)) // ftp / tftp
	}
	n := g.smallLen()
	var acts []openflow13.Action
	for i := 0; i < n && g.room(); i++ {
		var a openflow13.Action
		var err error
		switch g.r.Pick(35, 20, 15, 15, 15) {
		case 0:
			a = g.nat(false)
		case 1:
			a = openflow13.NewActionSetField(*openflow13.NewCTMarkMatchField(g.u32(), g.u32Ptr()))
		case 2:
			var h *openflow13.MatchField
			if h, err = openflow13.FindFieldHeaderByName("NXM_NX_CT_MARK", false); err == nil {
				a = openflow13.NewNXActionRegLoad(g.nxRange(32).ToOfsBits(), h, uint64(g.u32()))
			}
		case 3:
			var f *openflow13.MatchField
			if f, err = g.field("nx_ct_label"); err == nil {
				a = openflow13.NewNXActionRegLoad2(f)
			}
		default:
			if depth < 2 {
				a, err = g.randAction(depth + 1)
			} else {
				a = g.nat(false)
			}
		}
		if err != nil {
			return nil, err
		}
		g.spend(a.Len())
		acts = append(acts, a)
	}
	if g.r.Chance(0.5) {
		ct.AddAction(acts...)
	} else {
		for _, a := range acts {
			ct.AddAction(a)
		}
	}
	return ct, nil
}

func (g *libGen) action(name string, depth int) (openflow13.Action, error) {
	switch name {
	case "output":
		a := openflow13.NewActionOutput(g.ofPort())
		switch g.r.Pick(50, 20, 10, 20) {
		case 1:
			a.MaxLen = openflow13.OFPCML_NO_BUFFER
		case 2:
			a.MaxLen = openflow13.OFPCML_MAX
		case 3:
			a.MaxLen = g.u16()
		}
		return a, nil
	case "set_queue":
		return openflow13.NewActionSetQueue(g.u32()), nil
	case "group":
		return openflow13.NewActionGroup(g.groupID()), nil
	case "dec_nw_ttl":
		return openflow13.NewActionDecNwTtl(), nil
	case "push_vlan":
		if g.r.Chance(0.7) {
			return openflow13.NewActionPushVlan(0x8100), nil
		}
		return openflow13.NewActionPushVlan(0x88a8), nil
	case "push_mpls":
		if g.r.Chance(0.7) {
			return openflow13.NewActionPushMpls(0x8847), nil
		}
		return openflow13.NewActionPushMpls(0x8848), nil
	case "pop_vlan":
		return openflow13.NewActionPopVlan(), nil
	case "pop_mpls":
		if g.r.Chance(0.7) {
			return openflow13.NewActionPopMpls(protocol.IPv4_MSG), nil
		}
		return openflow13.NewActionPopMpls(g.u16()), nil
	case "set_field":
		f, err := g.valueField()
		if err != nil {
			return nil, err
		}
		return openflow13.NewActionSetField(*f), nil
	case "nx_conjunction":
		nc := uint8(g.r.Range(2, 64))
		return openflow13.NewNXActionConjunction(uint8(g.r.Intn(int(nc))), nc, g.u32()), nil
	case "nx_ct":
		return g.conntrack(depth)
	case "nx_reg_load":
		h, err := g.hdrField()
		if err != nil {
			return nil, err
		}
		return openflow13.NewNXActionRegLoad(g.nxRange(int(h.Length)*8).ToOfsBits(), h, g.u64()), nil
	case "nx_reg_move":
		src, err := g.hdrField()
		if err != nil {
			return nil, err
		}
		dst, err := g.hdrField()
		if err != nil {
			return nil, err
		}
		w := int(src.Length)
		if int(dst.Length) < w {
			w = int(dst.Length)
		}
		rng := g.nxRange(w * 8)
		return openflow13.NewNXActionRegMove(rng.GetNbits(), rng.GetOfs(), uint16(g.r.Intn(int(rng.GetOfs())+1)), src, dst), nil
	case "nx_resubmit":
		return openflow13.NewNXActionResubmit(g.u16()), nil
	case "nx_resubmit_table":
		if g.r.Chance(0.4) {
			return openflow13.NewNXActionResubmitTableAction(openflow13.OFPP_IN_PORT, g.tableID()), nil
		}
		return openflow13.NewNXActionResubmitTableAction(g.u16(), g.tableID()), nil
	case "nx_resubmit_table_ct":
		return openflow13.NewNXActionResubmitTableCT(g.u16(), g.tableID()), nil
	case "nx_resubmit_table_ct_no_in_port":
		return openflow13.NewNXActionResubmitTableCTNoInPort(g.tableID()), nil
	case "nx_nat":
		return g.nat(false), nil
	case "nx_nat_proto_min_only":
		return g.nat(true), nil
	case "nx_output_reg":
		h, err := g.hdrField()
		if err != nil {
			return nil, err
		}
		return openflow13.NewOutputFromField(h, g.nxRange(int(h.Length)*8).ToOfsBits()), nil
	case "nx_output_reg_max_len":
		h, err := g.hdrField()
		if err != nil {
			return nil, err
		}
		return openflow13.NewOutputFromFieldWithMaxLen(h, g.nxRange(int(h.Length)*8).ToOfsBits(), g.u16()), nil
	case "nx_ct_clear":
		return openflow13.NewNXActionCTClear(), nil
	case "nx_dec_ttl":
		return openflow13.NewNXActionDecTTL(), nil
	case "nx_dec_ttl_cnt_ids":
		n := g.listLen()
		ids := make([]uint16, n)
		for i := range ids {
			ids[i] = g.u16()
		}
		if n == 2 && g.r.Chance(0.5) {
			return openflow13.NewNXActionDecTTLCntIDs(2, ids[0], ids[1]), nil
		}
		return openflow13.NewNXActionDecTTLCntIDs(uint16(n), ids...), nil
	case "nx_learn":
		return g.learn()
	case "nx_note":
		a := openflow13.NewNXActionNote()
		switch g.r.Pick(10, 40, 40, 10) {
		case 1:
			a.Note = g.bytes(6 + 8*g.r.Intn(4)) // fills the action exactly
		case 2:
			a.Note = g.bytes(g.r.Range(1, 40))
		case 3:
			a.Note = g.bytes(g.r.Range(100, 250))
		}
		return a, nil
	case "nx_reg_load2":
		f, err := g.valueField()
		if err != nil {
			return nil, err
		}
		return openflow13.NewNXActionRegLoad2(f), nil
	case "nx_controller":
		a := openflow13.NewNXActionController(g.u16())
		a.Reason = uint8(g.r.Intn(3))
		a.MaxLen = g.u16()
		return a, nil
	case "header_only":
		types := []uint16{openflow13.ActionType_CopyTtlOut, openflow13.ActionType_CopyTtlIn,
			openflow13.ActionType_DecMplsTtl, openflow13.ActionType_PopPbb}
		return &openflow13.ActionHeader{Type: types[g.r.Intn(len(types))], Length: 8}, nil
	case "set_nw_ttl":
		return &openflow13.ActionNwTtl{
			ActionHeader: openflow13.ActionHeader{Type: openflow13.ActionType_SetNwTtl, Length: 8},
			NwTtl:        g.u8(),
		}, nil
	case "set_mpls_ttl":
		return &openflow13.ActionMplsTtl{
			ActionHeader: openflow13.ActionHeader{Type: openflow13.ActionType_SetMplsTtl, Length: 8},
			MplsTtl:      g.u8(),
		}, nil
	case "nx_header_only":
		sub := []uint16{openflow13.NXAST_EXIT, openflow13.NXAST_POP_QUEUE, openflow13.NXAST_DEC_MPLS_TTL,
			openflow13.NXAST_DROP_SPOOFED_ARP, openflow13.NXAST_DEC_NSH_TTL}
		return openflow13.NewNxActionHeader(sub[g.r.Intn(len(sub))]), nil
	}
	return nil, fmt.Errorf("hlib: unknown action %q", name)
}

func (g *libGen) randAction(depth int) (openflow13.Action, error) {
	names := libNestedActionNames()
	a, err := g.action(names[g.r.Intn(len(names))], depth)
	if err != nil {
		return nil, err
	}
	g.spend(a.Len())
	return a, nil
}

// actions builds a list of n actions (fewer when the size budget is used up).
func (g *libGen) actions(n int) ([]openflow13.Action, error) {
	out := make([]openflow13.Action, 0, n)
	for i := 0; i < n && g.room(); i++ {
		a, err := g.randAction(0)
		if err != nil {
			return nil, err
		}
		out = append(out, a)
	}
	return out, nil
}

// ---------------------------------------------------------------------------------------
// instructions and buckets

func (g *libGen) instruction(name string) (openflow13.Instruction, error) {
	switch name {
	case "goto_table":
		in := openflow13.NewInstrGotoTable(g.tableID())
		if g.r.Chance(0.1) {
			_ = in.AddAction(openflow13.NewActionPopVlan(), false) // refused: "not supported"
		}
		return in, nil
	case "write_metadata":
		in := openflow13.NewInstrWriteMetadata(g.u64(), g.u64())
		if g.r.Chance(0.1) {
			_ = in.AddAction(openflow13.NewActionPopVlan(), true)
		}
		return in, nil
	case "meter":
		in := &openflow13.InstrMeter{
			InstrHeader: openflow13.InstrHeader{Type: openflow13.InstrType_METER, Length: 8},
			MeterId:     g.u32(),
		}
		if g.r.Chance(0.1) {
			_ = in.AddAction(openflow13.NewActionPopVlan(), false)
		}
		return in, nil
	case "write_actions", "apply_actions", "clear_actions":
		var in *openflow13.InstrActions
		n := g.listLen()
		switch name {
		case "write_actions":
			in = openflow13.NewInstrWriteActions()
		case "apply_actions":
			in = openflow13.NewInstrApplyActions()
		default:
			// no constructor for OFPIT_CLEAR_ACTIONS: the decoder uses InstrActions for it
			in = openflow13.NewInstrWriteActions()
			in.Type = openflow13.InstrType_CLEAR_ACTIONS
			if g.r.Chance(0.9) {
				n = 0
			}
		}
		acts, err := g.actions(n)
		if err != nil {
			return nil, err
		}
		for _, a := range acts {
			if err := in.AddAction(a, g.r.Chance(0.2)); err != nil {
				return nil, err
			}
		}
		return in, nil
	}
	return nil, fmt.Errorf("hlib: unknown instruction %q", name)
}

func (g *libGen) randInstruction() (openflow13.Instruction, error) {
	names := []string{"goto_table", "write_metadata", "write_actions", "apply_actions", "clear_actions", "meter"}
	in, err := g.instruction(names[g.r.Pick(15, 10, 20, 40, 8, 7)])
	if err != nil {
		return nil, err
	}
	g.spend(8)
	return in, nil
}

func (g *libGen) instructions() ([]openflow13.Instruction, error) {
	n := g.r.Pick(15, 35, 25, 15, 10)
	if g.r.Chance(0.04) {
		n = g.listLen()
	}
	out := make([]openflow13.Instruction, 0, n)
	for i := 0; i < n && g.room(); i++ {
		in, err := g.randInstruction()
		if err != nil {
			return nil, err
		}
		out = append(out, in)
	}
	return out, nil
}

func (g *libGen) bucket() (*openflow13.Bucket, error) {
	b := openflow13.NewBucket()
	if g.r.Chance(0.5) {
		b.Weight = g.u16()
	}
	if g.r.Chance(0.3) {
		b.WatchPort = g.ofPort()
	}
	if g.r.Chance(0.3) {
		b.WatchGroup = g.groupID()
	}
	acts, err := g.actions(g.listLen())
	if err != nil {
		return nil, err
	}
	for _, a := range acts {
		b.AddAction(a)
	}
	g.spend(16)
	return b, nil
}

// ---------------------------------------------------------------------------------------
// protocol package values

func (g *libGen) payload(max int) []byte {
	switch g.r.Pick(15, 45, 30, 10) {
	case 0:
		return []byte{}
	case 1:
		return g.bytes(g.r.Range(1, 32))
	case 2:
		return g.bytes(g.r.Range(33, 256))
	}
	if max < 257 {
		max = 257
	}
	return g.bytes(g.r.Range(257, max))
}

func (g *libGen) icmp() *protocol.ICMP {
	i := protocol.NewICMP()
	switch g.r.Pick(40, 30, 30) {
	case 0:
		i.Type = 8
	case 1:
		i.Type = 0
	default:
		i.Type, i.Code = g.u8(), g.u8()
	}
	i.Checksum = g.u16()
	if g.r.Chance(0.8) {
		i.Data = g.payload(600)
	}
	g.spend(i.Len())
	return i
}

func (g *libGen) udp(data []byte) *protocol.UDP {
	u := protocol.NewUDP()
	u.PortSrc, u.PortDst = g.u16(), g.u16()
	if data == nil && g.r.Chance(0.85) {
		data = g.payload(1200)
	}
	if data != nil {
		u.Data = data
	}
	u.Length = uint16(8 + len(u.Data))
	u.Checksum = g.u16()
	g.spend(u.Len())
	return u
}

func (g *libGen) tcp() *protocol.TCP {
	t := protocol.NewTCP()
	t.PortSrc, t.PortDst = g.u16(), g.u16()
	t.SeqNum, t.AckNum = g.u32(), g.u32()
	t.HdrLen = 5
	t.Code = uint8(g.r.Intn(64))
	t.WinSize = g.u16()
	t.Checksum = g.u16()
	if t.Code&0x20 != 0 {
		t.UrgFlag = g.u16()
	}
	switch g.r.Pick(30, 60, 10) {
	case 1:
		t.Data = g.payload(1200)
	case 2:
		t.Data = nil
	}
	g.spend(t.Len())
	return t
}

func (g *libGen) sources() []net.IP {
	n := g.listLen()
	out := make([]net.IP, 0, n)
	for i := 0; i < n; i++ {
		out = append(out, g.ip4())
	}
	return out
}

func (g *libGen) groupRecord() protocol.IGMPv3GroupRecord {
	rec := protocol.NewGroupRecord(uint8(g.r.Range(protocol.IGMPIsIn, protocol.IGMPBlock)), g.group4(), g.sources())
	g.spend(rec.Len())
	return rec
}

func (g *libGen) igmp(name string) (util.Message, error) {
	switch name {
	case "v1_query":
		return protocol.NewIGMPv1Query(g.group4()), nil
	case "v1_report":
		return protocol.NewIGMPv1Report(g.group4()), nil
	case "v2_query":
		return protocol.NewIGMPv2Query(g.group4(), g.u8()), nil
	case "v2_report":
		m := protocol.NewIGMPv2Report(g.group4())
		m.Checksum = g.u16()
		return m, nil
	case "v2_leave":
		return protocol.NewIGMPv2Leave(g.group4()), nil
	case "v3_query":
		q := protocol.NewIGMPv3Query(g.group4(), g.u8(), g.u8(), g.sources())
		q.SuppressRouterProcessing = g.r.Chance(0.3)
		q.RobustnessValue = uint8(g.r.Intn(8))
		q.Checksum = g.u16()
		g.spend(q.Len())
		return q, nil
	case "v3_report":
		n := g.listLen()
		recs := make([]protocol.IGMPv3GroupRecord, 0, n)
		for i := 0; i < n && g.room(); i++ {
			recs = append(recs, g.groupRecord())
		}
		m := protocol.NewIGMPv3Report(recs)
		m.Checksum = g.u16()
		return m, nil
	}
	return nil, fmt.Errorf("hlib: unknown igmp %q", name)
}

func (g *libGen) randIGMP() (util.Message, error) {
	names := []string{"v1_query", "v1_report", "v2_query", "v2_report", "v2_leave", "v3_query", "v3_report"}
	return g.igmp(names[g.r.Intn(len(names))])
}

func (g *libGen) dhcpOptions(d *protocol.DHCP) error {
	n := g.listLen()
	for i := 0; i < n && g.room(); i++ {
		var opt protocol.DHCPOption
		var err error
		switch g.r.Pick(20, 15, 15, 15, 10, 10, 5, 5, 5) {
		case 0:
			opt, err = protocol.DHCPIP4Option(protocol.DHCP_OPT_SUBNET_MASK, g.ip4Mask())
		case 1:
			ips := make([]net.IP, g.r.Range(0, 4))
			for j := range ips {
				ips[j] = g.ip4()
			}
			tags := []byte{protocol.DHCP_OPT_DEFAULT_GATEWAY, protocol.DHCP_OPT_DOMAIN_NAME_SERVERS, protocol.DHCP_OPT_NTP_SERVERS}
			opt, err = protocol.DHCPIP4sOption(tags[g.r.Intn(len(tags))], ips)
		case 2:
			tags := []byte{protocol.DHCP_OPT_HOST_NAME, protocol.DHCP_OPT_DOMAIN_NAME, protocol.DHCP_OPT_MESSAGE}
			opt, err = protocol.DHCPStringOption(tags[g.r.Intn(len(tags))], g.text(40))
		case 3:
			opt = protocol.DHCPNewOption(protocol.DHCP_OPT_LEASE_TIME, g.bytes(4))
		case 4:
			opt = protocol.DHCPNewOption(protocol.DHCP_OPT_PARAMS_REQUEST, g.bytes(g.r.Range(0, 12)))
		case 5:
			opt, err = protocol.DHCPIP4Option(protocol.DHCP_OPT_REQUEST_IP, g.ip4())
		case 6:
			opt = protocol.DHCPNewOption(g.u8(), g.bytes(g.r.Range(0, 253)))
		case 7:
			opt = protocol.DHCPNewOption(protocol.DHCP_OPT_PAD, nil)
		default:
			opt = protocol.DHCPNewOption(protocol.DHCP_OPT_END, nil)
		}
		if err != nil {
			return err
		}
		g.spend(opt.Len())
		d.Options = append(d.Options, opt)
	}
	return nil
}

func (g *libGen) dhcp(name string) (*protocol.DHCP, error) {
	xid := g.u32()
	if xid == 0 {
		xid = 1 // xid 0 makes the library draw from math/rand
	}
	hw := net.HardwareAddr(g.bytes(6))
	var d *protocol.DHCP
	var err error
	switch name {
	case "discover":
		d, err = protocol.NewDHCPDiscover(xid, hw)
	case "offer":
		d, err = protocol.NewDHCPOffer(xid, hw)
	case "request":
		d, err = protocol.NewDHCPRequest(xid, hw)
	case "ack":
		d, err = protocol.NewDHCPAck(xid, hw)
	case "nak":
		d, err = protocol.NewDHCPNak(xid, hw)
	default:
		d, err = protocol.NewDHCP(xid, protocol.DHCPOperation(g.r.Range(1, 2)), protocol.DHCP_HW_ETHERNET)
		if err == nil {
			d.HardwareLen = 6
			d.ClientHWAddr = hw
			d.Options = append(d.Options, protocol.DHCPNewOption(protocol.DHCP_OPT_MESSAGE_TYPE, []byte{byte(g.r.Range(1, 8))}))
		}
	}
	if err != nil {
		return nil, err
	}
	d.Secs = g.u16()
	if g.r.Chance(0.3) {
		d.Flags = protocol.DHCP_FLAG_BROADCAST
	}
	addr := func() net.IP {
		if g.r.Chance(0.12) {
			return g.ip4() // may be the 16-byte form net.ParseIP returns
		}
		return g.ip4short()
	}
	if g.r.Chance(0.5) {
		d.ClientIP = addr()
	}
	if g.r.Chance(0.5) {
		d.YourIP = addr()
	}
	if g.r.Chance(0.5) {
		d.ServerIP = addr()
	}
	if g.r.Chance(0.3) {
		d.GatewayIP = addr()
	}
	if g.r.Chance(0.3) {
		copy(d.ServerName[:], g.text(63))
	}
	if g.r.Chance(0.3) {
		copy(d.File[:], g.text(127))
	}
	g.spend(240)
	if err := g.dhcpOptions(d); err != nil {
		return nil, err
	}
	return d, nil
}

func (g *libGen) randDHCP() (*protocol.DHCP, error) {
	names := []string{"plain", "discover", "offer", "request", "ack", "nak"}
	return g.dhcp(names[g.r.Intn(len(names))])
}

// lldp builds an LLDP value. LLDP.Len() is the constant 15 and LLDP.Read counts chassis twice:
// with fit only identifiers small enough for Read to stay within Len() bytes are used.
func (g *libGen) lldp(fit bool) *protocol.LLDP {
	var ch, pt []byte
	w := []int{50, 25, 25}
	if fit {
		w = []int{1, 0, 0}
	}
	switch g.r.Pick(w...) {
	case 0:
		ch, pt = g.bytes(g.r.Range(0, 2)), g.bytes(g.r.Range(0, 2))
	case 1:
		ch, pt = g.bytes(6), g.bytes(g.r.Range(1, 6))
	default:
		ch, pt = g.bytes(g.r.Range(0, 20)), g.bytes(g.r.Range(0, 20))
	}
	g.spend(15)
	return &protocol.LLDP{
		Chassis: protocol.ChassisTLV{Type: 1, Length: uint16(1 + len(ch)), Subtype: uint8(g.r.Range(protocol.CH_CHASSIS_COMPONENT, protocol.CH_LOCAL_ASSGN)), Data: ch},
		Port:    protocol.PortTLV{Type: 2, Length: uint16(1 + len(pt)), Subtype: uint8(g.r.Range(protocol.PT_IFACE_ALIAS, protocol.PT_LOCAL_ASSGN)), Data: pt},
		TTL:     protocol.TTLTLV{Type: 3, Length: 2, Seconds: g.u16()},
	}
}

// ipv4Options returns a multiple of 4 bytes of IPv4 options.
func (g *libGen) ipv4Options() []byte {
	switch g.r.Pick(40, 30, 30) {
	case 0:
		return []byte{0x94, 0x04, 0x00, 0x00} // router alert
	case 1:
		n := 4 * g.r.Range(1, 10)
		b := make([]byte, n)
		b[0] = 7 // record route
		b[1] = byte(n)
		b[2] = 4
		return b
	}
	return g.bytes(4 * g.r.Range(1, 10))
}

// ipv4 builds an IPv4 header around inner ("icmp","udp","tcp","igmp","dhcp","raw","none","any").
func (g *libGen) ipv4(inner string, withOptions bool) (*protocol.IPv4, error) {
	ip := protocol.NewIPv4()
	ip.Version = 4
	ip.IHL = 5
	ip.DSCP = uint8(g.r.Intn(64))
	ip.ECN = uint8(g.r.Intn(4))
	ip.Id = g.u16()
	ip.Flags = uint16(g.r.Intn(8))
	if g.r.Chance(0.1) {
		ip.FragmentOffset = uint16(g.r.Intn(1 << 13))
	}
	ip.TTL = g.u8()
	ip.Checksum = g.u16()
	ip.NWSrc, ip.NWDst = g.ip4(), g.ip4()
	if inner == "any" {
		names := []string{"icmp", "udp", "tcp", "igmp", "dhcp", "raw", "none"}
		inner = names[g.r.Pick(20, 20, 20, 10, 10, 15, 5)]
	}
	if inner == "igmp" && g.r.Chance(0.7) {
		withOptions = true
	}
	if withOptions {
		opts := g.ipv4Options()
		if _, err := ip.Options.Write(opts); err != nil {
			return nil, err
		}
		ip.IHL = uint8(5 + len(opts)/4)
	}
	switch inner {
	case "icmp":
		ip.Protocol = protocol.Type_ICMP
		ip.Data = g.icmp()
	case "udp":
		ip.Protocol = protocol.Type_UDP
		ip.Data = g.udp(nil)
	case "tcp":
		ip.Protocol = protocol.Type_TCP
		ip.Data = g.tcp()
	case "igmp":
		ip.Protocol = protocol.Type_IGMP
		m, err := g.randIGMP()
		if err != nil {
			return nil, err
		}
		ip.Data = m
	case "dhcp":
		ip.Protocol = protocol.Type_UDP
		d, err := g.randDHCP()
		if err != nil {
			return nil, err
		}
		// the application serialises DHCP itself and hands the bytes to UDP
		raw, err := (&LibDHCP{d}).MarshalBinary()
		if err != nil {
			return nil, err
		}
		u := g.udp(raw)
		u.PortSrc, u.PortDst = 68, 67
		ip.Data = u
	case "raw":
		ip.Protocol = g.u8()
		ip.Data = util.NewBuffer(g.payload(1200))
	case "none":
		ip.Protocol = g.ipProto()
	default:
		return nil, fmt.Errorf("hlib: unknown ipv4 payload %q", inner)
	}
	ip.Length = ip.Len()
	g.spend(uint16(ip.IHL) * 4)
	return ip, nil
}

func (g *libGen) ipv6Option() *protocol.Option {
	n := g.r.Range(0, 12)
	if g.r.Chance(0.1) {
		n = g.r.Range(13, 60)
	}
	typ := g.u8()
	if g.r.Chance(0.4) {
		typ = 1 // PadN
	}
	return &protocol.Option{Type: typ, Length: uint8(n), Data: g.bytes(n)}
}

func (g *libGen) hbh(next uint8) *protocol.HopByHopHeader {
	h := protocol.NewHopByHopHeader()
	h.NextHeader = next
	total := 2
	n := g.smallLen()
	for i := 0; i < n; i++ {
		o := g.ipv6Option()
		total += int(o.Len())
		h.Options = append(h.Options, o)
	}
	h.HEL = uint8((total+7)/8 - 1)
	g.spend(h.Len())
	return h
}

func (g *libGen) routing(next uint8, nilData bool) *protocol.RoutingHeader {
	h := protocol.NewRoutingHeader()
	h.NextHeader = next
	h.RoutingType = uint8(g.r.Intn(5))
	segs := g.r.Range(0, 4)
	h.SegmentsLeft = uint8(g.r.Intn(segs + 1))
	data := make([]byte, 4, 4+16*segs)
	for i := 0; i < segs; i++ {
		data = append(data, g.ip6()...)
	}
	if !nilData {
		h.Data = util.NewBuffer(data)
	}
	h.HEL = uint8((4+len(data)+7)/8 - 1)
	g.spend(h.Len())
	return h
}

func (g *libGen) fragment(next uint8) *protocol.FragmentHeader {
	h := protocol.NewFragmentHeader()
	h.NextHeader = next
	h.FragmentOffset = uint16(g.r.Intn(1 << 13))
	h.MoreFragments = g.r.Chance(0.5)
	h.Identification = g.u32()
	g.spend(8)
	return h
}

// ipv6 builds an IPv6 header; ext selects extension headers: "none", "some", "all", "any".
func (g *libGen) ipv6(ext string) (*protocol.IPv6, error) {
	ip := &protocol.IPv6{
		Version:      6,
		TrafficClass: g.u8(),
		FlowLabel:    uint32(g.r.Intn(1 << 20)),
		HopLimit:     g.u8(),
		NWSrc:        g.ip6(),
		NWDst:        g.ip6(),
	}
	var last uint8
	switch g.r.Pick(30, 30, 15, 25) {
	case 0:
		last = protocol.Type_IPv6ICMP
		ic := g.icmp()
		ic.Type = uint8(128 + g.r.Intn(10))
		ip.Data = ic
	case 1:
		last = protocol.Type_UDP
		ip.Data = g.udp(nil)
	case 2:
		last = protocol.Type_TCP
		ip.Data = g.tcp()
	default:
		last = 59 // no next header
		ip.Data = util.NewBuffer(g.payload(600))
	}
	var useH, useR, useF bool
	switch ext {
	case "none":
	case "all":
		useH, useR, useF = true, true, true
	case "some":
		for !useH && !useR && !useF {
			useH, useR, useF = g.r.Chance(0.5), g.r.Chance(0.5), g.r.Chance(0.5)
		}
	default:
		if g.r.Chance(0.5) {
			useH, useR, useF = g.r.Chance(0.5), g.r.Chance(0.5), g.r.Chance(0.5)
		}
	}
	// chain back to front: hop-by-hop -> routing -> fragment -> upper layer
	next := last
	if useF {
		ip.FragmentHeader = g.fragment(next)
		next = protocol.Type_Fragment
	}
	if useR {
		ip.RoutingHeader = g.routing(next, false)
		next = protocol.Type_Routing
	}
	if useH {
		ip.HbhHeader = g.hbh(next)
		next = protocol.Type_HBH
	}
	ip.NextHeader = next
	ip.Length = ip.Len() - 40
	g.spend(40)
	return ip, nil
}

func (g *libGen) arp(op int) (*protocol.ARP, error) {
	a, err := protocol.NewARP(op)
	if err != nil {
		return nil, err
	}
	a.HWSrc, a.IPSrc = net.HardwareAddr(g.bytes(6)), g.ip4()
	a.IPDst = g.ip4()
	if op == protocol.Type_Reply || g.r.Chance(0.2) {
		a.HWDst = net.HardwareAddr(g.bytes(6))
	}
	g.spend(28)
	return a, nil
}

// ethernet builds a frame around payload: "none","raw","arp","ipv4_icmp","ipv4_udp","ipv4_tcp",
// "ipv4_igmp","ipv4_dhcp","ipv4","ipv6","lldp","any". vlan: 0 never, 1 always, 2 sometimes.
func (g *libGen) ethernet(payload string, vlan int) (*protocol.Ethernet, error) {
	eth := protocol.NewEthernet()
	eth.HWDst, eth.HWSrc = g.mac(), g.mac()
	if vlan == 1 || (vlan == 2 && g.r.Chance(0.3)) {
		eth.VLANID.VID = uint16(g.r.Range(1, 4094))
		eth.VLANID.PCP = uint8(g.r.Intn(8))
		eth.VLANID.DEI = uint8(g.r.Intn(2))
	}
	fit := false
	if payload == "any" {
		names := []string{"none", "raw", "arp", "ipv4", "ipv6", "lldp"}
		payload = names[g.r.Pick(5, 15, 15, 40, 15, 10)]
		fit = true
	}
	var err error
	switch payload {
	case "none":
		eth.Ethertype = g.u16()
	case "raw":
		eth.Ethertype = g.u16()
		eth.Data = util.NewBuffer(g.payload(1400))
	case "arp":
		eth.Ethertype = protocol.ARP_MSG
		eth.Data, err = g.arp(g.r.Range(protocol.Type_Request, protocol.Type_Reply))
	case "ipv4":
		eth.Ethertype = protocol.IPv4_MSG
		eth.Data, err = g.ipv4("any", g.r.Chance(0.15))
	case "ipv4_icmp", "ipv4_udp", "ipv4_tcp", "ipv4_igmp", "ipv4_dhcp":
		eth.Ethertype = protocol.IPv4_MSG
		eth.Data, err = g.ipv4(payload[5:], g.r.Chance(0.15))
	case "ipv6":
		eth.Ethertype = protocol.IPv6_MSG
		eth.Data, err = g.ipv6("any")
	case "lldp":
		eth.Ethertype = protocol.LLDP_MSG
		eth.Data = &LibLLDP{g.lldp(fit)}
	default:
		return nil, fmt.Errorf("hlib: unknown ethernet payload %q", payload)
	}
	if err != nil {
		return nil, err
	}
	g.spend(18)
	return eth, nil
}

// ---------------------------------------------------------------------------------------
// top-level messages

func (g *libGen) header(typ uint8) *common.Header {
	h := openflow13.NewOfp13Header()
	h.Type = typ
	return &h
}

func (g *libGen) hello(unknownElem bool) (*common.Hello, error) {
	h, err := common.NewHello(openflow13.VERSION)
	if err != nil {
		return nil, err
	}
	h.Header.Type = openflow13.Type_Hello
	if g.r.Chance(0.4) {
		// more versions in the bitmap element the constructor made
		if vb, ok := h.Elements[0].(*common.HelloElemVersionBitmap); ok {
			n := g.r.Range(1, 3)
			for i := 0; i < n; i++ {
				vb.Bitmaps = append(vb.Bitmaps, g.u32())
			}
			vb.Length = vb.Len()
		}
	}
	n := g.r.Pick(70, 20, 10)
	for i := 0; i < n; i++ {
		vb := common.NewHelloElemVersionBitmap()
		vb.Bitmaps[0] = g.u32()
		h.Elements = append(h.Elements, vb)
	}
	if unknownElem {
		// must come first: the decoder of a version bitmap element swallows the rest of the
		// message, so an unknown element placed after one is never looked at
		e := common.NewHelloElemHeader()
		e.Type = uint16(g.r.Range(2, 9))
		h.Elements = append([]common.HelloElem{e}, h.Elements...)
	}
	return h, nil
}

func (g *libGen) flowMod(cmd uint8) (*openflow13.FlowMod, error) {
	f := openflow13.NewFlowMod()
	f.Command = cmd
	f.Cookie = g.u64()
	if cmd != openflow13.FC_ADD && g.r.Chance(0.5) {
		f.CookieMask = g.u64()
	}
	f.TableId = g.tableID()
	f.IdleTimeout, f.HardTimeout = g.u16(), g.u16()
	f.Priority = g.u16()
	if g.r.Chance(0.15) {
		f.BufferId = g.u32()
	}
	del := cmd == openflow13.FC_DELETE || cmd == openflow13.FC_DELETE_STRICT
	if del && g.r.Chance(0.5) {
		f.OutPort = g.ofPort()
		f.OutGroup = g.groupID()
	}
	f.Flags = uint16(g.r.Intn(32))
	if g.r.Chance(0.5) {
		if err := g.fillMatch(&f.Match, g.listLen()); err != nil {
			return nil, err
		}
	} else {
		m, err := g.match()
		if err != nil {
			return nil, err
		}
		f.Match = *m
	}
	if !del || g.r.Chance(0.15) {
		ins, err := g.instructions()
		if err != nil {
			return nil, err
		}
		for _, in := range ins {
			f.AddInstruction(in)
		}
	}
	return f, nil
}

func (g *libGen) groupMod(cmd uint16) (*openflow13.GroupMod, error) {
	gm := openflow13.NewGroupMod()
	gm.Command = cmd
	gm.Type = uint8(g.r.Intn(4))
	gm.GroupId = g.groupID()
	n := g.r.Range(0, 5)
	if g.r.Chance(0.05) {
		n = g.listLen()
	}
	if cmd == openflow13.OFPGC_DELETE && g.r.Chance(0.85) {
		n = 0
	}
	for i := 0; i < n && g.room(); i++ {
		b, err := g.bucket()
		if err != nil {
			return nil, err
		}
		gm.AddBucket(*b)
	}
	return gm, nil
}

func (g *libGen) packetOut(nilData bool) (*openflow13.PacketOut, error) {
	p := openflow13.NewPacketOut()
	if g.r.Chance(0.5) {
		p.InPort = g.ofPort()
	}
	acts, err := g.actions(g.listLen())
	if err != nil {
		return nil, err
	}
	for _, a := range acts {
		p.AddAction(a)
	}
	if nilData {
		return p, nil
	}
	switch g.r.Pick(70, 15, 15) {
	case 0:
		eth, err := g.ethernet("any", 2)
		if err != nil {
			return nil, err
		}
		p.Data = eth
	case 1:
		p.SetData(g.payload(1400))
	default:
		p.BufferId = g.u32()
		p.SetData([]byte{})
	}
	return p, nil
}

func (g *libGen) portMod() *openflow13.PortMod {
	p := openflow13.NewPortMod(g.r.Range(1, 4096))
	if g.r.Chance(0.5) {
		// the constructor leaves version and xid zero; an application that wants a valid
		// OpenFlow 1.3 header has to install one itself
		p.Header = openflow13.NewOfp13Header()
		p.Header.Type = openflow13.Type_PortMod
	}
	copy(p.HWAddr, g.mac())
	p.Config = g.u32() & 0x75
	p.Mask = g.u32() & 0x75
	p.Advertise = g.u32() & 0xffff
	return p
}

func (g *libGen) phyPort() *openflow13.PhyPort {
	p := openflow13.NewPhyPort()
	p.PortNo = g.ofPort()
	copy(p.HWAddr, g.mac())
	copy(p.Name, g.text(15))
	p.Config, p.State = g.u32()&0x75, g.u32()&7
	p.Curr, p.Advertised, p.Supported, p.Peer = g.u32()&0xffff, g.u32()&0xffff, g.u32()&0xffff, g.u32()&0xffff
	p.CurrSpeed, p.MaxSpeed = g.u32(), g.u32()
	g.spend(64)
	return p
}

func (g *libGen) flowStatsRequest() (*openflow13.FlowStatsRequest, error) {
	s := openflow13.NewFlowStatsRequest()
	s.TableId = g.tableID()
	if g.r.Chance(0.3) {
		s.OutPort = g.ofPort()
	}
	if g.r.Chance(0.3) {
		s.OutGroup = g.groupID()
	}
	s.Cookie = g.u64()
	if g.r.Chance(0.5) {
		s.CookieMask = g.u64()
	}
	if err := g.fillMatch(&s.Match, g.listLen()); err != nil {
		return nil, err
	}
	return s, nil
}

func (g *libGen) aggregateStatsRequest() (*openflow13.AggregateStatsRequest, error) {
	s := openflow13.NewAggregateStatsRequest()
	s.TableId = g.tableID()
	s.OutPort = openflow13.P_ANY
	s.OutGroup = openflow13.OFPG_ANY
	if g.r.Chance(0.3) {
		s.OutPort = g.ofPort()
	}
	s.Cookie = g.u64()
	if g.r.Chance(0.5) {
		s.CookieMask = g.u64()
	}
	if err := g.fillMatch(&s.Match, g.listLen()); err != nil {
		return nil, err
	}
	return s, nil
}

func (g *libGen) portStatsRequest() *openflow13.PortStatsRequest {
	s := openflow13.NewPortStatsRequest()
	s.PortNo = g.u16()
	return s
}

func (g *libGen) queueStatsRequest() *openflow13.QueueStatsRequest {
	s := openflow13.NewQueueStatsRequest()
	s.PortNo = g.u16()
	s.QueueId = g.u32()
	return s
}

func (g *libGen) mpRequest(typ uint16, body util.Message) *openflow13.MultipartRequest {
	req := &openflow13.MultipartRequest{
		Header: openflow13.NewOfp13Header(),
		Type:   typ,
		Body:   body,
	}
	req.Header.Type = openflow13.Type_MultiPartRequest
	if g.r.Chance(0.1) {
		req.Flags = openflow13.OFPMPF_REQ_MORE
	}
	return req
}

func (g *libGen) emptyBody() util.Message {
	if g.r.Chance(0.5) {
		return util.NewBuffer([]byte{})
	}
	return util.NewBuffer(nil)
}

func (g *libGen) mpRequestKind(name string) (util.Message, error) {
	switch name {
	case "desc":
		return g.mpRequest(openflow13.MultipartType_Desc, g.emptyBody()), nil
	case "flow":
		b, err := g.flowStatsRequest()
		if err != nil {
			return nil, err
		}
		return g.mpRequest(openflow13.MultipartType_Flow, b), nil
	case "aggregate":
		b, err := g.aggregateStatsRequest()
		if err != nil {
			return nil, err
		}
		return g.mpRequest(openflow13.MultipartType_Aggregate, b), nil
	case "table":
		return g.mpRequest(openflow13.MultipartType_Table, g.emptyBody()), nil
	case "port":
		return g.mpRequest(openflow13.MultipartType_Port, g.portStatsRequest()), nil
	case "queue":
		return g.mpRequest(openflow13.MultipartType_Queue, g.queueStatsRequest()), nil
	case "group":
		// no body type in the library: group id + 4 pad bytes in a util.Buffer
		b := make([]byte, 8)
		gid := g.groupID()
		b[0], b[1], b[2], b[3] = byte(gid>>24), byte(gid>>16), byte(gid>>8), byte(gid)
		return g.mpRequest(openflow13.MultipartType_Group, util.NewBuffer(b)), nil
	case "group_desc":
		return g.mpRequest(openflow13.MultipartType_GroupDesc, g.emptyBody()), nil
	case "group_features":
		return g.mpRequest(openflow13.MultipartType_GroupFeatures, g.emptyBody()), nil
	case "meter", "meter_config":
		b := make([]byte, 8)
		mid := g.u32()
		b[0], b[1], b[2], b[3] = byte(mid>>24), byte(mid>>16), byte(mid>>8), byte(mid)
		t := uint16(openflow13.MultipartType_Meter)
		if name == "meter_config" {
			t = openflow13.MultipartType_MeterConfig
		}
		return g.mpRequest(t, util.NewBuffer(b)), nil
	case "meter_features":
		return g.mpRequest(openflow13.MultipartType_MeterFeatures, g.emptyBody()), nil
	case "table_features":
		return g.mpRequest(openflow13.MultipartType_TableFeatures, g.emptyBody()), nil
	case "port_desc":
		return g.mpRequest(openflow13.MultipartType_PortDesc, g.emptyBody()), nil
	case "experimenter":
		b := make([]byte, 8, 8+64)
		b[2], b[3] = 0x23, 0x20 // Nicira
		b[7] = byte(g.r.Intn(4))
		b = append(b, g.bytes(8*g.r.Range(0, 8))...)
		return g.mpRequest(openflow13.MultipartType_Experimenter, util.NewBuffer(b)), nil
	case "nil_body":
		return g.mpRequest(openflow13.MultipartType_Desc, nil), nil
	}
	return nil, fmt.Errorf("hlib: unknown multipart request %q", name)
}

func (g *libGen) tlvMaps() []*openflow13.TLVTableMap {
	n := g.listLen()
	out := make([]*openflow13.TLVTableMap, 0, n)
	for i := 0; i < n; i++ {
		out = append(out, &openflow13.TLVTableMap{
			OptClass:  g.u16(),
			OptType:   g.u8(),
			OptLength: uint8(4 * g.r.Range(1, 31)),
			Index:     uint16(g.r.Intn(64)),
		})
		g.spend(8)
	}
	return out
}

func (g *libGen) tlvTableMod() *openflow13.TLVTableMod {
	cmd := uint16(g.r.Range(openflow13.NXTTMC_ADD, openflow13.NXTTMC_CLEAR))
	if cmd == openflow13.NXTTMC_CLEAR {
		return openflow13.NewTLVTableMod(cmd, nil)
	}
	return openflow13.NewTLVTableMod(cmd, g.tlvMaps())
}

func (g *libGen) bundleControl() *openflow13.BundleControl {
	return &openflow13.BundleControl{
		BundleID: g.u32(),
		Type:     uint16(g.r.Range(int(openflow13.OFPBCT_OPEN_REQUEST), int(openflow13.OFPBCT_DISCARD_REPLY))),
		Flags:    uint16(g.r.Intn(4)), // none, atomic, ordered, both
	}
}

// libBundleInnerKinds: what a bundle-add may wrap (any controller-originated message).
func libBundleInnerKinds() []string {
	return []string{
		"flow_mod_add", "flow_mod_add", "flow_mod_modify", "flow_mod_modify_strict", "flow_mod_delete",
		"flow_mod_delete_strict", "group_mod_add", "group_mod_modify", "group_mod_delete", "packet_out",
		"port_mod", "hello", "echo_request", "echo_reply", "features_request", "get_config_request",
		"set_config", "barrier_request", "mp_request_flow", "mp_request_desc", "mp_request_port",
		"nx_set_controller_id", "nx_tlv_table_mod", "nx_tlv_table_request", "bundle_control",
	}
}

func (g *libGen) bundleAdd(props bool) (*openflow13.BundleAdd, error) {
	kinds := libBundleInnerKinds()
	inner, err := g.build(kinds[g.r.Intn(len(kinds))])
	if err != nil {
		return nil, err
	}
	ba := &openflow13.BundleAdd{
		BundleID: g.u32(),
		Flags:    uint16(g.r.Intn(4)),
		Message:  inner,
	}
	if props {
		n := g.r.Range(1, 3)
		for i := 0; i < n; i++ {
			p := openflow13.NewBundlePropertyExperimenter()
			p.ExperimenterID = openflow13.NxExperimenterID
			p.ExperimenterType = g.u32()
			p.Length = p.Len()
			ba.Properties = append(ba.Properties, *p)
		}
	}
	return ba, nil
}

func (g *libGen) nxVendor(msgType uint32, body util.Message) *openflow13.VendorHeader {
	v := openflow13.NewNXTVendorHeader(msgType)
	v.VendorData = body
	return v
}

// ---------------------------------------------------------------------------------------
// switch-originated messages

func (g *libGen) errorMsg() *openflow13.ErrorMsg {
	e := openflow13.NewErrorMsg()
	e.Header = openflow13.NewOfp13Header()
	e.Header.Type = openflow13.Type_Error
	e.Type = uint16(g.r.Intn(14))
	e.Code = uint16(g.r.Intn(16))
	_, _ = e.Data.Write(g.bytes(g.r.Range(0, 64)))
	e.Header.Length = e.Len() // ErrorMsg.MarshalBinary does not fill it
	return e
}

func (g *libGen) bundleError() *openflow13.VendorError {
	e := openflow13.NewBundleError()
	e.Header.Type = openflow13.Type_Error
	e.Code = uint16(g.r.Range(int(openflow13.BEC_UNKNOWN), int(openflow13.BEC_BUNDLE_IN_PROCESS)))
	_, _ = e.Data.Write(g.bytes(g.r.Range(0, 64)))
	e.Header.Length = e.Len()
	return e
}

func (g *libGen) featuresReply() *openflow13.SwitchFeatures {
	s := openflow13.NewFeaturesReply()
	copy(s.DPID, g.bytes(8))
	s.Buffers = g.u32()
	s.NumTables = g.u8()
	s.AuxilaryId = g.u8()
	s.Capabilities = g.u32() & 0x16f
	n := g.listLen()
	for i := 0; i < n && g.room(); i++ {
		s.Ports = append(s.Ports, *g.phyPort())
	}
	return s
}

func (g *libGen) packetIn() (*openflow13.PacketIn, error) {
	p := openflow13.NewPacketIn()
	if g.r.Chance(0.2) {
		p.BufferId = g.u32()
	}
	p.Reason = uint8(g.r.Intn(3))
	p.TableId = g.tableID()
	p.Cookie = g.u64()
	p.Match.AddField(*openflow13.NewInPortField(g.ofPort()))
	if err := g.fillMatch(&p.Match, g.smallLen()); err != nil {
		return nil, err
	}
	eth, err := g.ethernet("any", 2)
	if err != nil {
		return nil, err
	}
	p.Data = *eth
	p.TotalLen = p.Data.Len()
	p.Header.Length = p.Len() // PacketIn.MarshalBinary does not fill it
	return p, nil
}

func (g *libGen) flowRemoved() (*openflow13.FlowRemoved, error) {
	f := openflow13.NewFlowRemoved()
	f.Header.Type = openflow13.Type_FlowRemoved
	f.Cookie = g.u64()
	f.Priority = g.u16()
	f.Reason = uint8(g.r.Intn(4))
	f.TableId = g.tableID()
	f.DurationSec, f.DurationNSec = g.u32(), g.u32()
	f.IdleTimeout, f.HardTimeout = g.u16(), g.u16()
	f.PacketCount, f.ByteCount = g.u64(), g.u64()
	if err := g.fillMatch(&f.Match, g.listLen()); err != nil {
		return nil, err
	}
	f.Header.Length = f.Len() // FlowRemoved.MarshalBinary does not fill it
	return f, nil
}

func (g *libGen) portStatus() *openflow13.PortStatus {
	p := openflow13.NewPortStatus()
	p.Header.Type = openflow13.Type_PortStatus
	p.Reason = uint8(g.r.Intn(3))
	p.Desc = *g.phyPort()
	return p
}

func (g *libGen) flowStats() (*openflow13.FlowStats, error) {
	s := openflow13.NewFlowStats()
	s.TableId = g.tableID()
	s.DurationSec, s.DurationNSec = g.u32(), g.u32()
	s.Priority = g.u16()
	s.IdleTimeout, s.HardTimeout = g.u16(), g.u16()
	s.Flags = uint16(g.r.Intn(32))
	s.Cookie, s.PacketCount, s.ByteCount = g.u64(), g.u64(), g.u64()
	if err := g.fillMatch(&s.Match, g.smallLen()); err != nil {
		return nil, err
	}
	ins, err := g.instructions()
	if err != nil {
		return nil, err
	}
	s.Instructions = append(s.Instructions, ins...)
	s.Length = s.Len() // FlowStats.MarshalBinary does not fill it
	g.spend(48)
	return s, nil
}

func (g *libGen) descStats() *openflow13.DescStats {
	s := openflow13.NewDescStats()
	copy(s.MfrDesc, g.text(60))
	copy(s.HWDesc, g.text(60))
	copy(s.SWDesc, g.text(60))
	copy(s.SerialNum, g.text(31))
	copy(s.DPDesc, g.text(60))
	g.spend(s.Len())
	return s
}

func (g *libGen) aggregateStats() *openflow13.AggregateStats {
	s := openflow13.NewAggregateStats()
	s.PacketCount, s.ByteCount, s.FlowCount = g.u64(), g.u64(), g.u32()
	return s
}

func (g *libGen) tableStats() *openflow13.TableStats {
	s := openflow13.NewTableStats()
	s.TableId = g.tableID()
	copy(s.Name, g.text(31))
	s.Wildcards, s.MaxEntries, s.ActiveCount = g.u32(), g.u32(), g.u32()
	s.LookupCount, s.MatchedCount = g.u64(), g.u64()
	g.spend(s.Len())
	return s
}

func (g *libGen) portStats() *openflow13.PortStats {
	s := openflow13.NewPortStats()
	s.PortNo = g.u16()
	s.RxPackets, s.TxPackets, s.RxBytes, s.TxBytes = g.u64(), g.u64(), g.u64(), g.u64()
	s.RxDropped, s.TxDropped, s.RxErrors, s.TxErrors = g.u64(), g.u64(), g.u64(), g.u64()
	s.RxFrameErr, s.RxOverErr, s.RxCRCErr, s.Collisions = g.u64(), g.u64(), g.u64(), g.u64()
	g.spend(s.Len())
	return s
}

func (g *libGen) queueStats() *openflow13.QueueStats {
	g.spend(32)
	return &openflow13.QueueStats{PortNo: g.u16(), QueueId: g.u32(), TxBytes: g.u64(), TxPackets: g.u64(), TxErrors: g.u64()}
}

func (g *libGen) mpReply(name string) (util.Message, error) {
	rep := &openflow13.MultipartReply{Header: openflow13.NewOfp13Header()}
	rep.Header.Type = openflow13.Type_MultiPartReply
	if g.r.Chance(0.1) {
		rep.Flags = openflow13.OFPMPF_REPLY_MORE
	}
	n := g.listLen()
	switch name {
	case "desc":
		rep.Type = openflow13.MultipartType_Desc
		rep.Body = append(rep.Body, g.descStats())
	case "aggregate":
		rep.Type = openflow13.MultipartType_Aggregate
		rep.Body = append(rep.Body, g.aggregateStats())
	case "flow":
		rep.Type = openflow13.MultipartType_Flow
		for i := 0; i < n && g.room(); i++ {
			s, err := g.flowStats()
			if err != nil {
				return nil, err
			}
			rep.Body = append(rep.Body, s)
		}
	case "table":
		rep.Type = openflow13.MultipartType_Table
		for i := 0; i < n && g.room(); i++ {
			rep.Body = append(rep.Body, g.tableStats())
		}
	case "port":
		rep.Type = openflow13.MultipartType_Port
		for i := 0; i < n && g.room(); i++ {
			rep.Body = append(rep.Body, g.portStats())
		}
	case "queue":
		rep.Type = openflow13.MultipartType_Queue
		for i := 0; i < n && g.room(); i++ {
			rep.Body = append(rep.Body, g.queueStats())
		}
	default:
		return nil, fmt.Errorf("hlib: unknown multipart reply %q", name)
	}
	return rep, nil
}

// ---------------------------------------------------------------------------------------
// dispatch

func (g *libGen) build(kind string) (util.Message, error) {
	switch {
	case strings.HasPrefix(kind, "field_"):
		return g.field(kind[len("field_"):])
	case strings.HasPrefix(kind, "action_"):
		return g.action(kind[len("action_"):], 0)
	case strings.HasPrefix(kind, "mp_request_"):
		return g.mpRequestKind(kind[len("mp_request_"):])
	case strings.HasPrefix(kind, "sw_mp_reply_"):
		return g.mpReply(kind[len("sw_mp_reply_"):])
	case strings.HasPrefix(kind, "instr_"):
		return g.instruction(kind[len("instr_"):])
	case strings.HasPrefix(kind, "proto_igmp"):
		if kind == "proto_igmpv3_group_record" {
			rec := g.groupRecord()
			return &rec, nil
		}
		return g.igmp(kind[len("proto_igmp"):])
	}
	switch kind {
	case "hello":
		return g.hello(false)
	case "hello_unknown_elem":
		return g.hello(true)
	case "echo_request":
		return openflow13.NewEchoRequest(), nil
	case "echo_reply", "sw_echo_reply":
		return openflow13.NewEchoReply(), nil
	case "features_request":
		return openflow13.NewFeaturesRequest(), nil
	case "get_config_request":
		return openflow13.NewConfigRequest(), nil
	case "set_config":
		c := openflow13.NewSetConfig()
		c.Flags = uint16(g.r.Intn(4))
		c.MissSendLen = g.u16()
		return c, nil
	case "barrier_request":
		return g.header(openflow13.Type_BarrierRequest), nil
	case "sw_barrier_reply":
		return g.header(openflow13.Type_BarrierReply), nil
	case "flow_mod_add":
		return g.flowMod(openflow13.FC_ADD)
	case "flow_mod_modify":
		return g.flowMod(openflow13.FC_MODIFY)
	case "flow_mod_modify_strict":
		return g.flowMod(openflow13.FC_MODIFY_STRICT)
	case "flow_mod_delete":
		return g.flowMod(openflow13.FC_DELETE)
	case "flow_mod_delete_strict":
		return g.flowMod(openflow13.FC_DELETE_STRICT)
	case "group_mod_add":
		return g.groupMod(openflow13.OFPGC_ADD)
	case "group_mod_modify":
		return g.groupMod(openflow13.OFPGC_MODIFY)
	case "group_mod_delete":
		return g.groupMod(openflow13.OFPGC_DELETE)
	case "packet_out":
		return g.packetOut(false)
	case "packet_out_nil_data":
		return g.packetOut(true)
	case "port_mod":
		return g.portMod(), nil
	case "nx_set_controller_id":
		return openflow13.NewSetControllerID(g.u16()), nil
	case "nx_tlv_table_mod":
		return openflow13.NewTLVTableModMessage(g.tlvTableMod()), nil
	case "nx_tlv_table_request":
		return openflow13.NewTLVTableRequest(), nil
	case "nx_set_packet_in_format":
		return g.nxVendor(openflow13.Type_SetPacketInFormat, &openflow13.Uint32Message{Data: uint32(g.r.Intn(3))}), nil
	case "nx_set_flow_format":
		return g.nxVendor(openflow13.Type_SetFlowFormat, &openflow13.Uint32Message{Data: uint32(2 * g.r.Intn(3))}), nil
	case "nx_flow_mod_table_id":
		b := make([]byte, 8)
		b[0] = byte(g.r.Intn(2))
		return g.nxVendor(openflow13.Type_FlowModTableId, util.NewBuffer(b)), nil
	case "nx_ct_flush_zone":
		b := make([]byte, 8)
		z := g.u16()
		b[6], b[7] = byte(z>>8), byte(z)
		return g.nxVendor(openflow13.Type_CtFlushZone, util.NewBuffer(b)), nil
	case "bundle_control":
		return openflow13.NewBundleControl(g.bundleControl()), nil
	case "bundle_add", "bundle_add_props":
		ba, err := g.bundleAdd(kind == "bundle_add_props")
		if err != nil {
			return nil, err
		}
		return openflow13.NewBundleAdd(ba), nil
	case "sw_error":
		return g.errorMsg(), nil
	case "sw_bundle_error":
		return g.bundleError(), nil
	case "sw_features_reply":
		return g.featuresReply(), nil
	case "sw_get_config_reply":
		c := openflow13.NewSetConfig()
		c.Header.Type = openflow13.Type_GetConfigReply
		c.Flags = uint16(g.r.Intn(4))
		c.MissSendLen = g.u16()
		return c, nil
	case "sw_packet_in":
		return g.packetIn()
	case "sw_flow_removed":
		return g.flowRemoved()
	case "sw_port_status":
		return g.portStatus(), nil
	case "sw_nx_tlv_table_reply":
		return g.nxVendor(openflow13.Type_TlvTableReply, &openflow13.TLVTableReply{MaxSpace: g.u32(), MaxFields: g.u16(), TlvMaps: g.tlvMaps()}), nil

	case "of_header":
		return g.header(uint8(g.r.Intn(30))), nil
	case "hello_elem_header":
		return common.NewHelloElemHeader(), nil
	case "hello_elem_versionbitmap":
		vb := common.NewHelloElemVersionBitmap()
		n := g.listLen()
		for i := 0; i < n; i++ {
			vb.Bitmaps = append(vb.Bitmaps, g.u32())
		}
		vb.Length = vb.Len()
		return vb, nil
	case "match":
		return g.match()
	case "match_multi_reg":
		m := openflow13.NewMatch()
		for _, f := range g.multiReg() {
			m.AddField(*f)
		}
		return m, nil
	case "bucket":
		return g.bucket()
	case "learn_spec":
		return g.learnSpec()
	case "learn_spec_header":
		return g.learnSpecHeader(g.r.Intn(5), uint16(g.r.Range(1, 128))), nil
	case "learn_spec_field":
		return g.learnSpecField()
	case "phy_port":
		return g.phyPort(), nil
	case "body_flow_stats_request":
		return g.flowStatsRequest()
	case "body_aggregate_stats_request":
		return g.aggregateStatsRequest()
	case "body_port_stats_request":
		return g.portStatsRequest(), nil
	case "body_queue_stats_request":
		return g.queueStatsRequest(), nil
	case "body_desc_stats":
		return g.descStats(), nil
	case "body_flow_stats":
		return g.flowStats()
	case "body_aggregate_stats":
		return g.aggregateStats(), nil
	case "body_table_stats":
		return g.tableStats(), nil
	case "body_port_stats":
		return g.portStats(), nil
	case "body_queue_stats":
		return g.queueStats(), nil
	case "body_controller_id":
		return &openflow13.ControllerID{ID: g.u16()}, nil
	case "body_tlv_table_map":
		return g.tlvMaps0(), nil
	case "body_tlv_table_mod":
		return g.tlvTableMod(), nil
	case "body_tlv_table_reply":
		return &openflow13.TLVTableReply{MaxSpace: g.u32(), MaxFields: g.u16(), TlvMaps: g.tlvMaps()}, nil
	case "body_bundle_control":
		return g.bundleControl(), nil
	case "body_bundle_add":
		return g.bundleAdd(false)
	case "value_port_field":
		return openflow13.NewPortField(g.u16()), nil
	case "value_uint16":
		return &openflow13.Uint16Message{Data: g.u16()}, nil
	case "value_uint32":
		return &openflow13.Uint32Message{Data: g.u32()}, nil
	case "value_byte_array":
		n := g.r.Range(0, 128)
		return &openflow13.ByteArrayField{Data: g.bytes(n), Length: uint8(n)}, nil
	case "value_buffer":
		return util.NewBuffer(g.payload(1400)), nil

	case "proto_eth":
		return g.ethernet("any", 0)
	case "proto_eth_vlan":
		return g.ethernet("any", 1)
	case "proto_eth_arp":
		return g.ethernet("arp", 2)
	case "proto_eth_ipv4_icmp", "proto_eth_ipv4_udp", "proto_eth_ipv4_tcp", "proto_eth_ipv4_igmp", "proto_eth_ipv4_dhcp":
		return g.ethernet(kind[len("proto_eth_"):], 2)
	case "proto_eth_ipv6":
		return g.ethernet("ipv6", 2)
	case "proto_eth_lldp":
		return g.ethernet("lldp", 2)
	case "proto_vlan":
		v := protocol.NewVLAN()
		v.VID = uint16(g.r.Intn(4096))
		v.PCP = uint8(g.r.Intn(8))
		v.DEI = uint8(g.r.Intn(2))
		if g.r.Chance(0.1) {
			v.TPID = 0x88a8
		}
		return v, nil
	case "proto_arp_request":
		return g.arp(protocol.Type_Request)
	case "proto_arp_reply":
		return g.arp(protocol.Type_Reply)
	case "proto_ipv4":
		return g.ipv4("any", false)
	case "proto_ipv4_options":
		return g.ipv4("any", true)
	case "proto_ipv6":
		return g.ipv6("none")
	case "proto_ipv6_ext":
		if g.r.Chance(0.3) {
			return g.ipv6("all")
		}
		return g.ipv6("some")
	case "proto_ipv6_nil_data":
		ip, err := g.ipv6("none")
		if err != nil {
			return nil, err
		}
		ip.Data = nil
		return ip, nil
	case "proto_ipv6_hbh":
		return g.hbh(g.ipProto()), nil
	case "proto_ipv6_routing":
		return g.routing(g.ipProto(), false), nil
	case "proto_ipv6_routing_nil_data":
		return g.routing(g.ipProto(), true), nil
	case "proto_ipv6_fragment":
		return g.fragment(g.ipProto()), nil
	case "proto_ipv6_option":
		return g.ipv6Option(), nil
	case "proto_icmp":
		return g.icmp(), nil
	case "proto_udp":
		return g.udp(nil), nil
	case "proto_tcp":
		return g.tcp(), nil
	case "proto_dhcp", "proto_dhcp_discover", "proto_dhcp_offer", "proto_dhcp_request", "proto_dhcp_ack", "proto_dhcp_nak":
		name := "plain"
		if kind != "proto_dhcp" {
			name = kind[len("proto_dhcp_"):]
		}
		d, err := g.dhcp(name)
		if err != nil {
			return nil, err
		}
		return &LibDHCP{d}, nil
	case "proto_lldp":
		return &LibLLDP{g.lldp(false)}, nil
	}
	return nil, fmt.Errorf("hlib: unknown kind %q", kind)
}

func (g *libGen) tlvMaps0() *openflow13.TLVTableMap {
	return &openflow13.TLVTableMap{
		OptClass:  g.u16(),
		OptType:   g.u8(),
		OptLength: uint8(4 * g.r.Range(1, 31)),
		Index:     uint16(g.r.Intn(64)),
	}
}
