package hlib

// Extra wire kinds added after the sensitivity waves: shapes the random generators above reach
// only with negligible probability (deep nesting).

var wireExtraKinds = []wireKind{
	{"flow_mod_deep_ct", wireOK(func(g *wireGen) *W { return genDeepCT(g) })},
	{"bundle_add_deep", wireOK(func(g *wireGen) *W { return genDeepBundle(g) })},
	{"error_deep", wireOK(func(g *wireGen) *W { return genDeepError(g) })},
}

// genDeepError: an error message whose data (the offending request it quotes) is itself a
// complete error message, and so on: 12 bytes per level, a few to several thousand levels (the
// 64 KiB frame limit allows 5461). The innermost quoted request is an echo request.
func genDeepError(g *wireGen) *W {
	depth := 2 + g.r.Intn(12)
	switch {
	case g.hint >= 9000:
		depth = 1500 + g.r.Intn(3900)
	case g.hint >= 2000:
		depth = 100 + g.r.Intn(400)
	case g.hint >= 300:
		depth = 10 + g.r.Intn(40)
	}
	w := &W{}
	var lenAt []int
	for d := 0; d < depth; d++ {
		if d == 0 {
			w.MU8(4, "of.version")
		} else {
			w.U8(4)
		}
		w.MU8(1, "of.type")
		lenAt = append(lenAt, w.Len())
		w.MU16(0, "of.length")
		w.U32(g.xid)
		w.MU16(uint16(1+g.r.Intn(13)), "error.type")
		w.U16(uint16(g.r.Intn(8)))
	}
	w.U8(4)
	w.MU8(2, "of.type")
	w.MU16(8, "of.length")
	w.U32(g.xid)
	end := w.Len()
	for _, at := range lenAt {
		w.Put16(at, uint16(end-(at-2)))
	}
	return w
}

// genDeepBundle: ONF bundle-add messages nested inside each other (24 bytes per level, 3 to
// several hundred levels; the 64 KiB frame limit allows about 2700). The innermost message is an
// echo request, or - half of the time - a message the parser rejects, so that an error travels
// back up through every level.
func genDeepBundle(g *wireGen) *W {
	depth := 3 + g.r.Intn(12)
	switch {
	case g.hint >= 9000:
		// up to the deepest nesting a frame can hold (the reverse of fix F-C07-5 needs about 740
		// levels to cross the time bound; with 300-800 levels a quick run crossed it only two or
		// three times and the final matrix once not at all)
		depth = 300 + g.r.Intn(2400)
	case g.hint >= 2000:
		depth = 60 + g.r.Intn(200)
	case g.hint >= 300:
		depth = 10 + g.r.Intn(40)
	}
	w := &W{}
	var lenAt []int
	for d := 0; d < depth; d++ {
		if d == 0 {
			w.MU8(4, "of.version")
			w.MU8(4, "of.type")
			lenAt = append(lenAt, w.Len())
			w.MU16(0, "of.length")
		} else {
			w.U8(4)
			w.MU8(4, "of.type")
			lenAt = append(lenAt, w.Len())
			w.MU16(0, "of.length")
		}
		w.U32(g.xid)
		w.MU32(0x4f4e4600, "vendor.id")
		w.MU32(2301, "vendor.type")
		w.U32(uint32(g.r.Intn(1 << 16))) // bundle id
		w.Zero(2)
		w.U16(uint16(g.r.Intn(4))) // flags
	}
	// innermost message
	w.U8(4)
	if g.r.Chance(0.5) {
		w.MU8(2, "of.type") // echo request
		w.MU16(8, "of.length")
	} else {
		w.MU8(uint8(24+g.r.Intn(6)), "of.type") // a type the parser has no decoder for
		w.MU16(8, "of.length")
	}
	w.U32(g.xid)
	end := w.Len()
	for _, at := range lenAt {
		w.Put16(at, uint16(end-(at-2)))
	}
	return w
}

// genDeepCT: a flow-mod whose apply-actions instruction holds conntrack actions nested 3..60
// deep (wire-valid: every level's length covers the levels inside it). Decoding is linear in the
// frame size on a correct decoder; a decoder that walks each nested list more than once is not.
func genDeepCT(g *wireGen) *W {
	depth := 3 + g.r.Intn(10)
	switch {
	case g.hint >= 2000:
		depth = 30 + g.r.Intn(31)
	case g.hint >= 300:
		depth = 10 + g.r.Intn(25)
	}
	w := &W{}
	w.MU8(4, "of.version")
	w.MU8(14, "of.type")
	w.MU16(0, "of.length")
	w.U32(g.xid)
	w.U64(g.r.Uint64()) // cookie
	w.U64(0)            // cookie mask
	w.U8(uint8(g.r.Intn(4)))
	w.U8(0) // OFPFC_ADD
	w.U16(0)
	w.U16(0)
	w.U16(uint16(g.r.Intn(65536)))
	w.U32(0xffffffff)
	w.U32(0xffffffff)
	w.U32(0xffffffff)
	w.U16(0)
	w.Zero(2)
	w.MU16(1, "match.type")
	w.MU16(4, "match.length")
	w.Zero(4)
	instrAt := w.Len()
	w.MU16(4, "instr.type") // apply-actions
	w.MU16(0, "instr.len")
	w.Zero(4)
	var lenAt []int
	for d := 0; d < depth; d++ {
		w.MU16(0xffff, "action.type")
		lenAt = append(lenAt, w.Len())
		w.MU16(0, "action.len")
		w.MU32(0x00002320, "vendor.id")
		w.MU16(35, "nx.subtype")
		w.U16(uint16(g.r.Intn(2))) // flags
		w.U32(0)                   // zone source: immediate
		w.U16(uint16(g.r.Intn(65536)))
		w.U8(0xff)
		w.Zero(3)
		w.U16(0)
	}
	end := w.Len()
	for _, at := range lenAt {
		w.Put16(at, uint16(end-(at-2)))
	}
	w.Put16(instrAt+2, uint16(end-instrAt))
	w.Put16(2, uint16(end))
	return w
}
