package hlib

// Extra wire kinds added after the sensitivity waves: shapes the random generators above reach
// only with negligible probability (deep nesting).

var wireExtraKinds = []wireKind{
	{"flow_mod_deep_ct", wireOK(func(g *wireGen) *W { return genDeepCT(g) })},
}

// genDeepCT: a flow-mod whose apply-actions instruction holds conntrack actions nested 3..60
// deep (wire-valid: every level's length covers the levels inside it). Decoding is linear in the
// frame size on a correct decoder; a decoder that walks each nested list more than once is not.
func genDeepCT(g *wireGen) *W {
	depth := 3 + g.r.Intn(10)
	switch {
	case g.hint >= 2000:
		depth = 30 + g.r.Intn(31)
	case g.hint >= 300:
		depth = 10 + g.r.Intn(25)
	}
	w := &W{}
	w.MU8(4, "of.version")
	w.MU8(14, "of.type")
	w.MU16(0, "of.length")
	w.U32(g.xid)
	w.U64(g.r.Uint64()) // cookie
	w.U64(0)            // cookie mask
	w.U8(uint8(g.r.Intn(4)))
	w.U8(0) // OFPFC_ADD
	w.U16(0)
	w.U16(0)
	w.U16(uint16(g.r.Intn(65536)))
	w.U32(0xffffffff)
	w.U32(0xffffffff)
	w.U32(0xffffffff)
	w.U16(0)
	w.Zero(2)
	w.MU16(1, "match.type")
	w.MU16(4, "match.length")
	w.Zero(4)
	instrAt := w.Len()
	w.MU16(4, "instr.type") // apply-actions
	w.MU16(0, "instr.len")
	w.Zero(4)
	var lenAt []int
	for d := 0; d < depth; d++ {
		w.MU16(0xffff, "action.type")
		lenAt = append(lenAt, w.Len())
		w.MU16(0, "action.len")
		w.MU32(0x00002320, "vendor.id")
		w.MU16(35, "nx.subtype")
		w.U16(uint16(g.r.Intn(2))) // flags
		w.U32(0)                   // zone source: immediate
		w.U16(uint16(g.r.Intn(65536)))
		w.U8(0xff)
		w.Zero(3)
		w.U16(0)
	}
	end := w.Len()
	for _, at := range lenAt {
		w.Put16(at, uint16(end-(at-2)))
	}
	w.Put16(instrAt+2, uint16(end-instrAt))
	w.Put16(2, uint16(end))
	return w
}
