package main

import (
	"fmt"
	"net"
	"reflect"
	"strings"

	"github.com/contiv/libOpenflow/cmd/hlib"
	"github.com/contiv/libOpenflow/common"
	"github.com/contiv/libOpenflow/openflow13"
	"github.com/contiv/libOpenflow/protocol"
	"github.com/contiv/libOpenflow/simrt"
	"github.com/contiv/libOpenflow/util"
)

// held is one registry lookup result a task keeps (and later mutates).
type held struct {
	f       *openflow13.MatchField
	expect  openflow13.MatchField // what this task last knows the value to be (Value/Mask compared by identity)
	name    string
	step    int
	mutated bool
}

type taskCtx struct {
	id   int
	out  []string // observable outcome of every executed op
	ids  []uint32 // transaction ids drawn
	held []*held
	gen  func() common.Header
}

type world struct {
	sc   *Scenario
	sim  *simrt.Sim
	ctx  []*taskCtx
	ref  []*taskCtx
	viol []hlib.Violation
	// ids chosen for parse operations whose frame carries an id relative to the live counter
	relXid map[[2]int]uint32

	results map[uintptr]int // address of every lookup result of the concurrent phase -> task
	probes  hlib.Counter
	faults  hlib.Counter
	maxima  hlib.MaxCounter
	states  *hlib.KMV
	trans   *hlib.KMV
	lastAbs uint64

	xid0              uint32 // value of the id counter when the run started
	lastReleased      *simrt.Task
	interleavedInside int
	concurrent        bool
}

func (w *world) violate(oracle, class, site, detail string) {
	for _, v := range w.viol {
		if v.Oracle == oracle && v.Class == class && v.Site == site {
			return
		}
	}
	if len(w.viol) >= 8 {
		return
	}
	step := 0
	if w.sim != nil {
		step = w.sim.Steps
		w.sim.Event(0xbad, simrt.HashString(oracle+class))
	}
	w.viol = append(w.viol, hlib.Violation{Property: w.sc.Property, Oracle: oracle, Class: class, Site: site,
		Detail: fmt.Sprintf("step %d: %s", step, detail), RunSeed: w.sc.RunSeed})
}

const opTicks = 200_000
const opAlloc = 8 << 20

// guard runs f with a tick/alloc budget and converts a panic into an outcome string.
func guard(f func() string) (out string) {
	b := &simrt.Budget{MaxTicks: opTicks, MaxAlloc: opAlloc}
	simrt.Arm(b)
	defer func() {
		simrt.Disarm()
		if r := recover(); r != nil {
			if be, ok := r.(simrt.BudgetExceeded); ok {
				out = "budget:" + be.B.Exceeded
				return
			}
			if s, ok := r.(string); ok && strings.HasPrefix(s, "harness:") {
				panic(r)
			}
			out = "panic:" + panicText(r)
		}
	}()
	return f()
}

func panicText(r any) string {
	switch v := r.(type) {
	case error:
		return v.Error()
	case string:
		return v
	}
	return fmt.Sprintf("%v", r)
}

func errText(err error) string {
	if err == nil {
		return "-"
	}
	return err.Error()
}

// normalise overwrites every transaction id reachable from m with a position-dependent
// constant and returns the ids that were there (the ids this build drew).
func normalise(m any) []uint32 {
	var ids []uint32
	for i, h := range hlib.Headers(m) {
		ids = append(ids, h.Xid)
		h.Xid = 0xA0000000 + uint32(i)
	}
	return ids
}

// refCtx receives the ids drawn while the sequential reference runs (no simulation active).
var refCtx *taskCtx

func currentCtx() *taskCtx {
	if s := simrt.Cur(); s != nil {
		if t := s.Running(); t != nil {
			if c, ok := t.Tag.(*taskCtx); ok {
				return c
			}
		}
		return nil
	}
	return refCtx
}

func init() {
	// NewOfp13Header is a public, replaceable function variable: wrap it once, before any
	// simulation exists, so that every id the generator issues is attributed to the task
	// that drew it. The wrapped generator (the code under test) runs unchanged.
	orig := openflow13.NewOfp13Header
	openflow13.NewOfp13Header = func() common.Header {
		h := orig()
		if c := currentCtx(); c != nil {
			c.ids = append(c.ids, h.Xid)
		}
		return h
	}
}

func distinct(ids []uint32) []uint32 {
	var out []uint32
	for _, id := range ids {
		dup := false
		for _, o := range out {
			if o == id {
				dup = true
			}
		}
		if !dup {
			out = append(out, id)
		}
	}
	return out
}

func hashBytes(b []byte) uint64 {
	h := uint64(14695981039346656037)
	for _, c := range b {
		h ^= uint64(c)
		h *= 1099511628211
	}
	return h
}

func encodeOutcome(m util.Message) string {
	if m == nil || (reflect.ValueOf(m).Kind() == reflect.Ptr && reflect.ValueOf(m).IsNil()) {
		return "nil"
	}
	l := m.Len()
	b, err := m.MarshalBinary()
	return fmt.Sprintf("len=%d n=%d h=%016x e=%s", l, len(b), hashBytes(b), errText(err))
}

// exec executes one op for task c and returns its observable outcome.
func (w *world) exec(c *taskCtx, op Op) string {
	switch op.K {
	case "hdr":
		return guard(func() string {
			var s []string
			for i := 0; i < op.A; i++ {
				h := openflow13.NewOfp13Header() // recorded by the wrapper installed in init
				s = append(s, fmt.Sprintf("%d/%d/%d", h.Version, h.Type, h.Length))
			}
			return strings.Join(s, ",")
		})
	case "gen":
		return guard(func() string {
			if c.gen == nil {
				c.gen = common.NewHeaderGenerator(4)
			}
			var s []string
			for i := 0; i < op.A; i++ {
				h := c.gen()
				c.ids = append(c.ids, h.Xid)
				s = append(s, fmt.Sprintf("%d/%d/%d", h.Version, h.Type, h.Length))
			}
			return strings.Join(s, ",")
		})
	case "hello":
		return guard(func() string {
			h, err := common.NewHello(4)
			if err != nil || h == nil {
				return "error:" + errText(err)
			}
			c.ids = append(c.ids, h.Xid)
			normalise(h)
			return encodeOutcome(h)
		})
	case "dhcp0":
		// DHCP constructors asked to choose the transaction id themselves (xid 0): the id is
		// random by design, everything else must equal the sequential outcome
		return guard(func() string {
			r := simrt.NewRNG(op.S)
			hw := net.HardwareAddr(r.Bytes(6))
			var d *protocol.DHCP
			var err error
			switch op.A % 6 {
			case 0:
				d, err = protocol.NewDHCP(0, protocol.DHCPOperation(protocol.DHCP_MSG_BOOT_REQ), protocol.DHCP_HW_ETHERNET)
			case 1:
				d, err = protocol.NewDHCPDiscover(0, hw)
			case 2:
				d, err = protocol.NewDHCPOffer(0, hw)
			case 3:
				d, err = protocol.NewDHCPRequest(0, hw)
			case 4:
				d, err = protocol.NewDHCPAck(0, hw)
			case 5:
				d, err = protocol.NewDHCPNak(0, hw)
			}
			if err != nil || d == nil {
				return "error:" + errText(err)
			}
			d.Xid = 7
			return fmt.Sprintf("h=%016x len=%d", hlib.DeepHash(d), d.Len())
		})
	case "lib":
		return guard(func() string {
			m, err := hlib.LibMessage(op.N, simrt.NewRNG(op.S))
			if err != nil || m == nil {
				return "build-error:" + errText(err)
			}
			// ids are recorded where they are drawn (wrapper around NewOfp13Header); headers
			// that constructors fill by other means (zero, copied, caller-chosen) are not ids
			// issued by the generator and are only normalised for the comparison of outcomes
			normalise(m)
			out := encodeOutcome(m)
			if hlib.LibTopLevel(op.N) {
				if b, err := m.MarshalBinary(); err == nil && len(b) >= 8 {
					pm, perr := openflow13.Parse(b)
					out += fmt.Sprintf(" parsed=%016x pe=%s", hlib.DeepHash(pm), errText(perr))
				}
			}
			return out
		})
	case "parse":
		return guard(func() string {
			xid := 0x7000 + uint32(op.S&0xfff)
			if op.R > 0 {
				// a reply to a request issued around now: its id is near the counter's value.
				// Whichever phase (concurrent run, sequential reference) executes the op first
				// chooses the id; the other one decodes the very same frame.
				key := [2]int{c.id, len(c.out)}
				if v, ok := w.relXid[key]; ok {
					xid = v
				} else {
					xid = common.VerifGetXid() + uint32(op.R-1)
					if w.relXid == nil {
						w.relXid = map[[2]int]uint32{}
					}
					w.relXid[key] = xid
				}
			}
			b, _, err := hlib.WireFrame(op.N, xid, simrt.NewRNG(op.S), op.A)
			if err != nil {
				panic("harness: corpus: " + err.Error())
			}
			m, perr := openflow13.Parse(append([]byte(nil), b...))
			if perr == nil && op.S&3 == 0 {
				// what an application does with a decoded message: extend its match (to
				// reinstall a removed flow, to narrow a flow it was told about) - a moment
				// later, other tasks' operations in between
				if w.concurrent {
					simrt.Yield()
				}
				extendMatch(m, op.S)
			}
			out := fmt.Sprintf("h=%016x pe=%s", hlib.DeepHash(m), errText(perr))
			if perr == nil && m != nil {
				out += " " + encodeOutcome(m)
			}
			return out
		})
	case "pkt":
		return guard(func() string {
			b, _ := hlib.Packet(op.N, simrt.NewRNG(op.S), op.A)
			e := new(protocol.Ethernet)
			err := e.UnmarshalBinary(append([]byte(nil), b...))
			out := fmt.Sprintf("h=%016x e=%s", hlib.DeepHash(e), errText(err))
			if err == nil {
				out += " " + encodeOutcome(e)
			}
			return out
		})
	case "dec":
		return guard(func() string {
			b, _ := hlib.DecoderInput(op.N, simrt.NewRNG(op.S), op.A)
			v, err := hlib.RunDecoder(op.N, append([]byte(nil), b...))
			return fmt.Sprintf("h=%016x e=%s", hlib.DeepHash(v), errText(err))
		})
	case "lookup":
		return w.lookup(c, op)
	case "mutate":
		if len(c.held) == 0 {
			return "-"
		}
		h := c.held[op.A%len(c.held)]
		r := simrt.NewRNG(op.S)
		w.checkHeld(c, h)
		h.f.Class ^= uint16(1 + r.Intn(0xffff))
		h.f.Field = ^h.f.Field
		h.f.HasMask = !h.f.HasMask
		h.f.Length += uint8(1 + r.Intn(200))
		h.f.ExperimenterID = uint32(r.Uint64())
		if r.Chance(0.5) {
			h.f.Value = util.NewBuffer(r.Bytes(1 + r.Intn(16)))
		}
		if r.Chance(0.3) {
			h.f.Mask = util.NewBuffer(r.Bytes(1 + r.Intn(16)))
		}
		h.expect = *h.f
		h.mutated = true
		if w.concurrent {
			w.faults.Add("result_mutated", 1)
		}
		return "m"
	case "use":
		// hand a lookup result to the library functions that take a field header, the way
		// flow-programming code does, and keep holding it: it stays the caller's value
		var cand []*held
		for _, h := range c.held {
			if !h.mutated {
				cand = append(cand, h)
			}
		}
		if len(cand) == 0 {
			return "-"
		}
		r := simrt.NewRNG(op.S)
		h := cand[r.Intn(len(cand))]
		h2 := cand[r.Intn(len(cand))]
		w.checkHeld(c, h)
		out := guard(func() string {
			var a util.Message
			switch op.A % 6 {
			case 0:
				a = openflow13.NewNXActionConnTrack().ZoneRange(h.f, openflow13.NewNXRange(0, 15))
			case 1:
				a = openflow13.NewNXActionRegLoad(openflow13.NewNXRange(0, 7).ToOfsBits(), h.f, uint64(r.Intn(200)))
			case 2:
				a = openflow13.NewNXActionRegMove(8, 0, 0, h.f, h2.f)
			case 3:
				a = openflow13.NewOutputFromField(h.f, openflow13.NewNXRange(0, 15).ToOfsBits())
			case 4:
				a = openflow13.NewOutputFromFieldWithMaxLen(h.f, openflow13.NewNXRange(0, 15).ToOfsBits(), uint16(r.Intn(1000)))
			case 5:
				a = openflow13.NewNXActionRegLoad2(h.f)
			}
			return encodeOutcome(a)
		})
		w.checkHeld(c, h)
		w.checkHeld(c, h2)
		return out
	case "check":
		for _, h := range c.held {
			w.checkHeld(c, h)
		}
		return "c"
	}
	panic("harness: unknown op " + op.K)
}

func sameField(a, b *openflow13.MatchField) bool {
	return a.Class == b.Class && a.Field == b.Field && a.HasMask == b.HasMask && a.Length == b.Length &&
		a.ExperimenterID == b.ExperimenterID && a.Value == b.Value && a.Mask == b.Mask
}

func (w *world) checkHeld(c *taskCtx, h *held) {
	if !sameField(h.f, &h.expect) {
		w.violate("registry", "held-result-changed", strings.ToUpper(h.name), fmt.Sprintf("task %d: the result of its lookup of %s changed although only this task holds it: now {class %#x field %d mask %v len %d}, was {class %#x field %d mask %v len %d}",
			c.id, h.name, h.f.Class, h.f.Field, h.f.HasMask, h.f.Length, h.expect.Class, h.expect.Field, h.expect.HasMask, h.expect.Length))
		h.expect = *h.f
	}
}

// extendMatch adds one or two fields to the match of a decoded message that has one.
func extendMatch(m any, seed uint64) {
	var mt *openflow13.Match
	switch x := m.(type) {
	case *openflow13.FlowMod:
		mt = &x.Match
	case *openflow13.FlowRemoved:
		mt = &x.Match
	case *openflow13.PacketIn:
		mt = &x.Match
	}
	if mt == nil {
		return
	}
	r := simrt.NewRNG(seed ^ 0xadd)
	for i := 1 + r.Intn(2); i > 0; i-- {
		switch r.Intn(3) {
		case 0:
			mt.AddField(*openflow13.NewInPortField(uint32(r.Intn(1 << 16))))
		case 1:
			mt.AddField(*openflow13.NewEthTypeField(uint16(r.Intn(1 << 16))))
		case 2:
			mt.AddField(*openflow13.NewMetadataField(r.Uint64(), nil))
		}
	}
}

func (w *world) lookup(c *taskCtx, op Op) string {
	var f *openflow13.MatchField
	var err error
	mask := op.A == 1
	out := guard(func() string {
		for i := 1; i < op.R; i++ {
			g, gerr := openflow13.FindFieldHeaderByName(op.N, mask)
			if gerr != nil || g == nil {
				return fmt.Sprintf("error at repetition %d:%s", i, errText(gerr))
			}
			if f != nil && (g.Class != f.Class || g.Field != f.Field || g.Length != f.Length || g.HasMask != f.HasMask) {
				return fmt.Sprintf("repetition %d differs: %#x/%d/%v/%d", i, g.Class, g.Field, g.HasMask, g.Length)
			}
			f = g
		}
		f, err = openflow13.FindFieldHeaderByName(op.N, mask)
		if err != nil || f == nil {
			return "error:" + errText(err)
		}
		return fmt.Sprintf("%#x/%d/%v/%d/%d/%v/%v", f.Class, f.Field, f.HasMask, f.Length, f.ExperimenterID, f.Value == nil, f.Mask == nil)
	})
	if f == nil {
		if w.sc.Property == "C15" {
			w.violate("registry", "lookup-failed", strings.ToUpper(op.N), fmt.Sprintf("lookup of registered name %q (mask=%v) failed: %s", op.N, mask, out))
		}
		return out
	}
	if w.sc.Property == "C15" {
		e := regLookup(strings.ToUpper(op.N))
		if e == nil {
			panic("harness: name not in the reference table: " + op.N)
		}
		want := e.width
		if mask {
			want *= 2
		}
		if f.Class != e.class || f.Field != e.field || f.HasMask != mask || (!e.varlen && f.Length != want) || f.Value != nil || f.Mask != nil {
			w.violate("registry", "wrong-header", e.name, fmt.Sprintf("task %d: lookup of %q (mask=%v) returned {class %#x field %d mask %v len %d}, the specifications define {class %#x field %d mask %v len %d}",
				c.id, op.N, mask, f.Class, f.Field, f.HasMask, f.Length, e.class, e.field, mask, want))
		}
	}
	if w.concurrent {
		p := reflect.ValueOf(f).Pointer()
		if o, dup := w.results[p]; dup {
			w.violate("registry", "lookup-results-share-memory", strings.ToUpper(op.N), fmt.Sprintf("task %d: lookup of %q returned the very object an earlier lookup (task %d) returned", c.id, op.N, o))
		}
		w.results[p] = c.id
		c.held = append(c.held, &held{f: f, expect: *f, name: op.N, step: w.sim.Steps})
	} else {
		c.held = append(c.held, &held{f: f, expect: *f, name: op.N})
	}
	return out
}

// runProgram executes a task's program; in the concurrent phase every op is preceded by a
// scheduling point so that harness-level mutations interleave with other tasks' lookups.
func (w *world) runProgram(c *taskCtx, p *TaskProg) {
	for _, op := range p.Ops {
		if w.concurrent {
			simrt.Yield()
		}
		c.out = append(c.out, w.exec(c, op))
	}
	for _, h := range c.held {
		w.checkHeld(c, h)
	}
}

// reference executes every program alone, one after the other, outside any simulation.
func (w *world) reference() {
	w.concurrent = false
	simrt.SetBusy(true)
	defer simrt.SetBusy(false)
	for i := range w.sc.Tasks {
		c := &taskCtx{id: i}
		refCtx = c
		w.runProgram(c, &w.sc.Tasks[i])
		refCtx = nil
		w.ref = append(w.ref, c)
		simrt.Progress()
	}
}

func (w *world) onStep(s *simrt.Sim, released *simrt.Task) {
	h := uint64(1469598103934665603)
	var sum uint64
	for _, t := range s.Live() {
		sum += simrt.Mix(simrt.HashString(t.PendKind()), uint64(uint32(t.PendSite())))
	}
	h ^= sum
	h *= 1099511628211
	h ^= uint64(common.VerifGetXid() - w.xid0)
	h *= 1099511628211
	w.states.Add(h)
	w.trans.Add(simrt.Mix(w.lastAbs, h))
	w.lastAbs = h
	if lr := w.lastReleased; lr != nil && lr != released && !lr.Exited() {
		if k := lr.PendKind(); k == "shared" || k == "atomic" {
			w.interleavedInside++
		}
	}
	w.lastReleased = released
}

func isFailure(out string) bool {
	return strings.HasPrefix(out, "panic:") || strings.HasPrefix(out, "budget:")
}

// finish evaluates the end-of-run oracles.
func (w *world) finish(res simrt.Result) {
	sim := w.sim
	if res.EndKind == "stepcap" {
		w.violate("liveness", "no-quiescence-within-step-cap", "", fmt.Sprintf("run did not finish within %d steps", res.Steps))
	}
	for _, p := range sim.Panics {
		if strings.HasPrefix(p.Val, "harness:") {
			w.viol = append(w.viol, hlib.Violation{Property: w.sc.Property, Oracle: "harness", Class: "trouble", Detail: p.Val + "\n" + p.Stack})
			continue
		}
		w.viol = append(w.viol, hlib.Violation{Property: w.sc.Property, Oracle: "harness", Class: "trouble", Detail: "task panicked outside an op: " + p.Val + "\n" + p.Stack})
	}
	// 1. ids pairwise distinct
	seen := map[uint32]int{}
	total := 0
	for _, c := range w.ctx {
		for _, id := range c.ids {
			total++
			if o, dup := seen[id]; dup {
				w.violate("xid", "duplicate-transaction-id", "", fmt.Sprintf("transaction id %#x was issued twice (tasks %d and %d; %d ids drawn by %d tasks, counter started at %#x)", id, o, c.id, total, len(w.ctx), w.xid0))
				break
			}
			seen[id] = c.id
		}
	}
	w.maxima.Obs("max_ids_per_run", float64(total))
	// 2. no cross-talk: outcomes equal the sequential reference
	for i, c := range w.ctx {
		r := w.ref[i]
		for j := range c.out {
			if j >= len(r.out) {
				break
			}
			if c.out[j] == r.out[j] {
				continue
			}
			if isFailure(r.out[j]) && isFailure(c.out[j]) {
				continue
			}
			op := w.sc.Tasks[i].Ops[j]
			w.violate("cross-talk", "outcome-differs-from-sequential", op.K+":"+strings.ToUpper(op.N), fmt.Sprintf("task %d op %d (%s %s): concurrent outcome %q differs from the outcome of the same op executed alone %q", i, j, op.K, op.N, clip(c.out[j]), clip(r.out[j])))
			break
		}
		if len(c.out) < len(w.sc.Tasks[i].Ops) && res.EndKind == "quiescent" {
			j := len(c.out)
			op := w.sc.Tasks[i].Ops[j]
			if j < len(r.out) && !isFailure(r.out[j]) {
				w.violate("cross-talk", "op-did-not-finish", op.K+":"+strings.ToUpper(op.N), fmt.Sprintf("task %d op %d (%s %s) exceeded its time/memory budget in the concurrent run but finishes when executed alone (%q)", i, j, op.K, op.N, clip(r.out[j])))
			}
		}
		for j := range r.out {
			if isFailure(r.out[j]) {
				w.probes.Add("op_fails_sequentially_too", 1)
			}
		}
	}
	// 3. data races on library state
	for _, r := range sim.Races {
		a, b := siteInfo(r.SiteA), siteInfo(r.SiteB)
		fa, fb := a.Func, b.Func
		if fb < fa {
			fa, fb = fb, fa
		}
		w.violate("race", "data-race-on-library-state", fa+" / "+fb, fmt.Sprintf("unsynchronised accesses to the same library variable: %q in %s (task %d) and %q in %s (task %d) are not ordered by happens-before (%s)", a.Text, a.Func, r.TaskA, b.Text, b.Func, r.TaskB, r.Kind))
	}
}

func clip(s string) string {
	if len(s) > 160 {
		return s[:157] + "..."
	}
	return s
}

func siteInfo(id int32) simrt.SiteInfo {
	if id >= 0 && int(id) < len(simrt.Sites) {
		return simrt.Sites[id]
	}
	return simrt.SiteInfo{Name: "harness", Func: "harness"}
}

// profileKinds executes every operation kind once, sequentially and outside any simulation,
// and records which shared-state sites (package-level variables, atomics, tracked objects) it
// touches. A kind's weight grows with the rarity of the sites it touches: a site only a few
// kinds reach (a cache, a free list, a counter inside one decoder) is where concurrent tasks
// can interfere, and random op mixes would otherwise almost never put two tasks there at once.
// Deterministic for a given tree: the same ops with the same seeds in the same order.
func profileKinds() {
	w := &world{sc: &Scenario{Property: "C14"}, results: map[uintptr]int{}, probes: hlib.Counter{}, faults: hlib.Counter{}, maxima: hlib.MaxCounter{}}
	type prof struct {
		k     string
		sites []int
	}
	shared := func(i int) bool {
		switch simrt.Sites[i].Kind {
		case "r", "w", "atomic", "p", "sync", "captured":
			return true
		}
		return false
	}
	simrt.EnableShared(true)
	simrt.Profiling = true
	simrt.SetBusy(true)
	defer func() { simrt.Profiling = false; simrt.EnableShared(false); simrt.SetBusy(false) }()
	siteKinds := make([]int, len(simrt.Sites)) // how many kinds touch site i
	var all []prof
	total := 0
	for _, k := range []string{"lib", "parse", "pkt", "dec"} {
		for _, n := range kindsOf(k) {
			before := append([]uint64(nil), simrt.SiteHits...)
			c := &taskCtx{id: 0}
			refCtx = c
			for rep := uint64(0); rep < 2; rep++ {
				w.exec(c, Op{K: k, N: n, S: 0x9e37 + rep, A: 64})
			}
			refCtx = nil
			simrt.Progress()
			p := prof{k: k}
			for i := range simrt.SiteHits {
				if simrt.SiteHits[i] != before[i] && shared(i) {
					p.sites = append(p.sites, i)
					siteKinds[i]++
				}
			}
			all = append(all, p)
			total++
		}
	}
	kindWeights = map[string][]int{}
	for _, p := range all {
		wt := 1.0
		for _, i := range p.sites {
			wt += 0.25 * float64(total) / float64(siteKinds[i])
		}
		if wt > 400 {
			wt = 400
		}
		kindWeights[p.k] = append(kindWeights[p.k], int(wt*10))
	}
	for i := range simrt.SiteHits {
		simrt.SiteHits[i] = 0
	}
}
