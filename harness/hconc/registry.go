package main

import "fmt"

// regEntry is one row of the reference table for the match-field registry, transcribed
// from OpenFlow 1.3.5 (Table 12 / enum oxm_ofb_match_fields) and Open vSwitch
// nicira-ext.h / meta-flow.h — NOT from the library's constants (DESIGN.md Appendix C).
type regEntry struct {
	name   string
	class  uint16
	field  uint8
	width  uint8
	varlen bool // variable-length field: width not checked
}

var registry []regEntry

func init() {
	add := func(prefix string, class uint16, first int, rows ...any) {
		f := first
		for i := 0; i < len(rows); i += 2 {
			registry = append(registry, regEntry{name: prefix + rows[i].(string), class: class, field: uint8(f), width: uint8(rows[i+1].(int))})
			f++
		}
	}
	// class 0x0000 NXM_OF_*, fields 0..17
	add("NXM_OF_", 0x0000, 0,
		"IN_PORT", 2, "ETH_DST", 6, "ETH_SRC", 6, "ETH_TYPE", 2, "VLAN_TCI", 2, "IP_TOS", 1, "IP_PROTO", 1,
		"IP_SRC", 4, "IP_DST", 4, "TCP_SRC", 2, "TCP_DST", 2, "UDP_SRC", 2, "UDP_DST", 2, "ICMP_TYPE", 1, "ICMP_CODE", 1,
		"ARP_OP", 2, "ARP_SPA", 4, "ARP_TPA", 4)
	// class 0x0001 NXM_NX_*
	for i := 0; i < 16; i++ {
		registry = append(registry, regEntry{name: fmt.Sprintf("NXM_NX_REG%d", i), class: 1, field: uint8(i), width: 4})
	}
	add("NXM_NX_", 0x0001, 16,
		"TUN_ID", 8, "ARP_SHA", 6, "ARP_THA", 6, "IPV6_SRC", 16, "IPV6_DST", 16, "ICMPV6_TYPE", 1, "ICMPV6_CODE", 1,
		"ND_TARGET", 16, "ND_SLL", 6, "ND_TLL", 6, "IP_FRAG", 1, "IPV6_LABEL", 4, "IP_ECN", 1, "IP_TTL", 1, "MPLS_TTL", 1,
		"TUN_IPV4_SRC", 4, "TUN_IPV4_DST", 4, "PKT_MARK", 4, "TCP_FLAGS", 2)
	add("NXM_NX_", 0x0001, 37, "CONJ_ID", 4, "TUN_GBP_ID", 2, "TUN_GBP_FLAGS", 1)
	for i := 0; i < 8; i++ {
		registry = append(registry, regEntry{name: fmt.Sprintf("NXM_NX_TUN_METADATA%d", i), class: 1, field: uint8(40 + i), varlen: true})
	}
	add("NXM_NX_", 0x0001, 104, "TUN_FLAGS", 2, "CT_STATE", 4, "CT_ZONE", 2, "CT_MARK", 4, "CT_LABEL", 16,
		"TUN_IPV6_SRC", 16, "TUN_IPV6_DST", 16, "XXREG0", 16, "XXREG1", 16, "XXREG2", 16, "XXREG3", 16)
	add("NXM_NX_", 0x0001, 119, "CT_NW_PROTO", 1, "CT_NW_SRC", 4, "CT_NW_DST", 4, "CT_IPV6_SRC", 16, "CT_IPV6_DST", 16,
		"CT_TP_SRC", 2, "CT_TP_DST", 2)
	// class 0x8000 OXM_OF_*, fields 0..39
	add("OXM_OF_", 0x8000, 0,
		"IN_PORT", 4, "IN_PHY_PORT", 4, "METADATA", 8, "ETH_DST", 6, "ETH_SRC", 6, "ETH_TYPE", 2, "VLAN_VID", 2, "VLAN_PCP", 1,
		"IP_DSCP", 1, "IP_ECN", 1, "IP_PROTO", 1, "IPV4_SRC", 4, "IPV4_DST", 4, "TCP_SRC", 2, "TCP_DST", 2, "UDP_SRC", 2,
		"UDP_DST", 2, "SCTP_SRC", 2, "SCTP_DST", 2, "ICMPV4_TYPE", 1, "ICMPV4_CODE", 1, "ARP_OP", 2, "ARP_SPA", 4, "ARP_TPA", 4,
		"ARP_SHA", 6, "ARP_THA", 6, "IPV6_SRC", 16, "IPV6_DST", 16, "IPV6_FLABEL", 4, "ICMPV6_TYPE", 1, "ICMPV6_CODE", 1,
		"IPV6_ND_TARGET", 16, "IPV6_ND_SLL", 6, "IPV6_ND_TLL", 6, "MPLS_LABEL", 4, "MPLS_TC", 1, "MPLS_BOS", 1, "PBB_ISID", 3,
		"TUNNEL_ID", 8, "IPV6_EXTHDR", 2)
}

func regLookup(upper string) *regEntry {
	for i := range registry {
		if registry[i].name == upper {
			return &registry[i]
		}
	}
	return nil
}
