package main

import (
	"strings"

	"github.com/contiv/libOpenflow/cmd/hlib"
	"github.com/contiv/libOpenflow/simrt"
)

// Op is one step of a task's program. Every op works on values the task alone owns.
type Op struct {
	K string `json:"k"`           // hdr | gen | lib | parse | pkt | dec | lookup | mutate | check
	N string `json:"n,omitempty"` // kind / field name
	S uint64 `json:"s,omitempty"` // seed of the op's private PRNG
	A int    `json:"a,omitempty"` // count / size hint / mask flag / held index
	// R: parse: >0 = the frame's transaction id is the process-wide counter's current value plus
	// R-1 (a reply to a request that was just, or is just being, issued); lookup: >1 = the lookup
	// is made R times in a row (a long history of one process).
	R int `json:"r,omitempty"`
}

// TaskProg is the program of one simulated task.
type TaskProg struct {
	Ops []Op `json:"ops"`
}

// Scenario is everything that defines one run besides the schedule decisions.
type Scenario struct {
	Property string             `json:"property"`
	RunSeed  uint64             `json:"run_seed"`
	Strategy simrt.StrategySpec `json:"strategy"`
	Class    string             `json:"class"`
	XidStart uint32             `json:"xid_start"`
	Tasks    []TaskProg         `json:"tasks"`
	// RefFirst runs the sequential reference before the concurrent phase instead of after it.
	RefFirst bool `json:"ref_first,omitempty"`
}

func genStrategy(r *simrt.RNG, horizon int) simrt.StrategySpec {
	sp := simrt.StrategySpec{Seed: r.Uint64(), Arm: "uniform"}
	switch r.Pick(20, 20, 45, 15) {
	case 0:
		sp.Kind = "uniform"
	case 1:
		sp.Kind = "sticky"
		sp.P = []float64{0.5, 0.9, 0.99}[r.Intn(3)]
	case 2:
		sp.Kind = "pct"
		sp.Depth = r.Intn(7)
		sp.Horizon = horizon
	case 3:
		sp.Kind = "starve"
		sp.Class = "task"
		n := 1 + r.Intn(3)
		for i := 0; i < n; i++ {
			a := r.Intn(horizon)
			l := 5 + r.Intn(horizon/2+1)
			sp.Windows = append(sp.Windows, [2]int{a, a + l})
		}
	}
	return sp
}

func pickStr(r *simrt.RNG, l []string) string {
	if len(l) == 0 {
		return ""
	}
	return l[r.Intn(len(l))]
}

// kindWeights biases the choice of kinds towards operations that touch shared library state
// few other operations touch (see profileKinds): that is where tasks working on independent
// values can influence each other. nil = uniform.
var kindWeights map[string][]int

func kindsOf(k string) []string {
	switch k {
	case "lib":
		return hlib.LibKinds()
	case "parse":
		return hlib.WireKinds()
	case "pkt":
		return hlib.PacketKinds()
	case "dec":
		return hlib.DecoderKinds()
	}
	return nil
}

func pickKind(r *simrt.RNG, k string) string {
	l := kindsOf(k)
	if len(l) == 0 {
		return ""
	}
	if w := kindWeights[k]; len(w) == len(l) && r.Chance(0.6) {
		return l[r.Pick(w...)]
	}
	return l[r.Intn(len(l))]
}

func randomCase(r *simrt.RNG, s string) string {
	switch r.Pick(50, 20, 30) {
	case 0:
		return s
	case 1:
		return strings.ToLower(s)
	}
	b := []byte(s)
	for i := range b {
		if r.Chance(0.5) && b[i] >= 'A' && b[i] <= 'Z' {
			b[i] += 'a' - 'A'
		}
	}
	return string(b)
}

func genOp(r *simrt.RNG, weights []int) Op {
	op := genOp1(r, weights)
	if op.N == "" && (op.K == "lib" || op.K == "parse" || op.K == "pkt" || op.K == "dec") {
		return Op{K: "hdr", A: 1}
	}
	return op
}

func genOp1(r *simrt.RNG, weights []int) Op {
	switch r.Pick(weights...) {
	case 0:
		if r.Chance(0.1) {
			return Op{K: "hello"}
		}
		return Op{K: "hdr", A: 1 + r.Intn(4)}
	case 1:
		return Op{K: "gen", A: 1 + r.Intn(4)}
	case 2:
		if r.Chance(0.06) {
			return Op{K: "dhcp0", S: r.Uint64(), A: r.Intn(6)}
		}
		return Op{K: "lib", N: pickKind(r, "lib"), S: r.Uint64()}
	case 3:
		op := Op{K: "parse", N: pickKind(r, "parse"), S: r.Uint64(), A: []int{0, 64, 300, 2000}[r.Pick(40, 30, 25, 5)]}
		if r.Chance(0.3) {
			op.R = 1 + r.Intn(7)
		}
		return op
	case 4:
		return Op{K: "pkt", N: pickKind(r, "pkt"), S: r.Uint64(), A: []int{0, 100, 600}[r.Intn(3)]}
	case 5:
		return Op{K: "dec", N: pickKind(r, "dec"), S: r.Uint64(), A: []int{0, 100, 600}[r.Intn(3)]}
	case 6:
		e := registry[r.Intn(len(registry))]
		return Op{K: "lookup", N: randomCase(r, e.name), A: r.Intn(2)}
	case 7:
		if r.Chance(0.4) {
			return Op{K: "use", A: r.Intn(6), S: r.Uint64()}
		}
		return Op{K: "mutate", A: r.Intn(64), S: r.Uint64()}
	}
	return Op{K: "check"}
}

func horizonOf(sc *Scenario) int {
	h := 20
	for _, t := range sc.Tasks {
		h += 6 * len(t.Ops)
	}
	return h
}

// freshChild is set in child processes that execute exactly one run with the library's
// package-level state as the Go initialisers left it.
var freshChild bool

// genFirstUse: what a fresh process is for - several tasks doing the same kind of thing as
// their very first operation, so that first-use paths (lazy initialisation, first draw, first
// lookup) are entered by two tasks at once. Never runs the reference first.
func genFirstUse(r *simrt.RNG, sc *Scenario) {
	sc.Class = "first-use"
	n := []int{2, 2, 3, 4, 6, 8}[r.Intn(6)]
	tmpl := genOp(r, []int{30, 10, 25, 20, 3, 3, 9, 0, 0})
	reps := 1 + r.Intn(3)
	for i := 0; i < n; i++ {
		var p TaskProg
		for j := 0; j < reps; j++ {
			op := tmpl
			if op.S != 0 {
				op.S = r.Uint64()
			}
			p.Ops = append(p.Ops, op)
		}
		// a little variety behind the common first operation
		for j := r.Intn(3); j > 0; j-- {
			p.Ops = append(p.Ops, genOp(r, []int{25, 10, 25, 15, 5, 5, 10, 3, 2}))
		}
		sc.Tasks = append(sc.Tasks, p)
	}
	sc.RefFirst = false
	sc.XidStart = 0
	sc.Strategy = genStrategy(r, horizonOf(sc))
}

// genLookupStorm: two to four tasks, each looking one name up thousands of times: whatever the
// registry does every so many lookups of the process (rebuild, eviction, statistics roll-over)
// happens while the other tasks are inside their lookups.
func genLookupStorm(r *simrt.RNG, sc *Scenario) {
	sc.Class = "lookup-storm"
	n := 2 + r.Intn(3)
	for i := 0; i < n; i++ {
		e := registry[r.Intn(len(registry))]
		sc.Tasks = append(sc.Tasks, TaskProg{Ops: []Op{{K: "lookup", N: randomCase(r, e.name), A: r.Intn(2), R: r.Range(2000, 12000)}}})
	}
	sc.RefFirst = false
	sc.Strategy = genStrategy(r, 40000)
}

func genC14(seed uint64) *Scenario {
	r := simrt.NewRNG(seed)
	sc := &Scenario{Property: "C14", RunSeed: seed, Class: "concurrent"}
	if freshChild {
		genFirstUse(r, sc)
		return sc
	}
	sc.XidStart = uint32(r.Intn(1 << 30))
	if r.Chance(0.1) {
		sc.XidStart = uint32(r.Intn(4)) // the value a fresh process starts from
	}
	if r.Chance(1.0 / 40) {
		genLookupStorm(r, sc)
		return sc
	}
	if r.Chance(0.25) {
		// homogeneous swarm: every task runs the same kind of operation (own seeds) a few times,
		// so that many tasks are inside the same library code at the same moment
		n := []int{3, 4, 8, 17, 24, 32, 48, 64}[r.Intn(8)]
		tmpl := genOp(r, []int{10, 5, 35, 30, 5, 5, 5, 0, 0})
		// few tasks hammering one operation many times (deep interleavings of a handful of
		// steps, e.g. a lock-free structure) or many tasks doing it once or twice (many inside
		// the same code at the same moment)
		reps := 1 + r.Intn(2)
		switch {
		case n <= 4:
			reps = 5 + r.Intn(26)
		case n <= 8:
			reps = 2 + r.Intn(7)
		case n <= 24:
			reps = 1 + r.Intn(3)
		}
		for i := 0; i < n; i++ {
			var p TaskProg
			for j := 0; j < reps; j++ {
				op := tmpl
				op.S = r.Uint64()
				p.Ops = append(p.Ops, op)
			}
			sc.Tasks = append(sc.Tasks, p)
		}
		sc.Class = "homogeneous"
		sc.RefFirst = r.Chance(0.3)
		sc.Strategy = genStrategy(r, horizonOf(sc))
		return sc
	}
	n := []int{2, 3, 4, 6, 8, 16, 32, 64}[r.Pick(25, 20, 15, 10, 10, 10, 6, 4)]
	maxOps := 40
	if n > 8 {
		maxOps = 12
	}
	// op mix varies per run (swarm): some runs are id-heavy, some codec-heavy
	w := []int{25, 10, 25, 15, 5, 5, 10, 3, 2}
	switch r.Pick(40, 30, 30) {
	case 1:
		w = []int{60, 30, 5, 0, 0, 0, 5, 0, 0}
	case 2:
		w = []int{5, 2, 40, 25, 10, 10, 5, 2, 1}
	}
	for i := 0; i < n; i++ {
		k := 1 + r.Intn(maxOps)
		var p TaskProg
		for j := 0; j < k; j++ {
			p.Ops = append(p.Ops, genOp(r, w))
		}
		sc.Tasks = append(sc.Tasks, p)
	}
	sc.RefFirst = r.Chance(0.3)
	sc.Strategy = genStrategy(r, horizonOf(sc))
	return sc
}

func genC15(seed uint64) *Scenario {
	r := simrt.NewRNG(seed)
	sc := &Scenario{Property: "C15", RunSeed: seed, Class: "concurrent"}
	sc.XidStart = uint32(r.Intn(1 << 30))
	if !freshChild && r.Chance(1.0/40) {
		genLookupStorm(r, sc)
		return sc
	}
	n := []int{2, 3, 4, 8, 16, 32}[r.Pick(25, 25, 20, 15, 10, 5)]
	sc.Tasks = make([]TaskProg, n)
	// every registered name in both mask modes, dealt to the tasks in shuffled order
	type lk struct {
		name string
		mask int
	}
	var all []lk
	for _, e := range registry {
		all = append(all, lk{e.name, 0}, lk{e.name, 1})
	}
	for i := len(all) - 1; i > 0; i-- {
		j := r.Intn(i + 1)
		all[i], all[j] = all[j], all[i]
	}
	for _, l := range all {
		t := r.Intn(n)
		sc.Tasks[t].Ops = append(sc.Tasks[t].Ops, Op{K: "lookup", N: randomCase(r, l.name), A: l.mask})
		// mutations of earlier results and repeated lookups of popular names in between
		for r.Chance(0.45) {
			switch r.Pick(50, 30, 10, 10) {
			case 0:
				if r.Chance(0.4) {
					sc.Tasks[t].Ops = append(sc.Tasks[t].Ops, Op{K: "use", A: r.Intn(6), S: r.Uint64()})
				} else {
					sc.Tasks[t].Ops = append(sc.Tasks[t].Ops, Op{K: "mutate", A: r.Intn(64), S: r.Uint64()})
				}
			case 1:
				e := registry[r.Intn(8)] // hot names: collisions between tasks
				o := r.Intn(n)
				sc.Tasks[o].Ops = append(sc.Tasks[o].Ops, Op{K: "lookup", N: randomCase(r, e.name), A: r.Intn(2)})
			case 2:
				sc.Tasks[t].Ops = append(sc.Tasks[t].Ops, Op{K: "check"})
			case 3:
				sc.Tasks[t].Ops = append(sc.Tasks[t].Ops, Op{K: "lib", N: pickStr(r, hlib.LibKinds()), S: r.Uint64()})
			}
		}
	}
	sc.Strategy = genStrategy(r, horizonOf(sc))
	return sc
}
