// hconc is the concurrency harness (C14, C15 clause 3): N simulated tasks execute
// PRNG-generated programs over the library's public API on values they alone own, with
// scheduling points at every access to shared library state; oracles: transaction ids pairwise
// distinct, outcomes equal to the sequential reference, happens-before race detector,
// registry lookups correct and independent. One simulation at a time per process.
package main

import (
	"context"
	"encoding/json"
	"flag"
	"fmt"
	"io"
	"os"
	"os/exec"
	"runtime"
	"runtime/debug"
	"strconv"
	"time"

	"github.com/contiv/libOpenflow/cmd/hlib"
	"github.com/contiv/libOpenflow/common"
	"github.com/contiv/libOpenflow/simrt"
	log "github.com/sirupsen/logrus"
	stdlog "log"
)

// ReplayFile is the on-disk form of one reproducible execution.
type ReplayFile struct {
	Property  string         `json:"property"`
	RunSeed   uint64         `json:"run_seed"`
	Tree      string         `json:"tree,omitempty"`
	Scenario  *Scenario      `json:"scenario"`
	Decisions []int32        `json:"decisions"`
	Violation hlib.Violation `json:"violation"`
	Hash      uint64         `json:"hash"`
	Steps     int            `json:"steps"`
	Minimised bool           `json:"minimised"`
	// History: runs to execute first, in order, in the same process (generated from seed and
	// index exactly as the worker generated them)
	History *hlib.History `json:"history,omitempty"`
}

func flatten(tr []simrt.Decision) []int32 {
	out := make([]int32, 0, 2*len(tr))
	for _, d := range tr {
		out = append(out, d.T, int32(d.A))
	}
	return out
}

func unflatten(f []int32) []simrt.Decision {
	out := make([]simrt.Decision, 0, len(f)/2)
	for i := 0; i+1 < len(f); i += 2 {
		out = append(out, simrt.Decision{T: f[i], A: int16(f[i+1])})
	}
	return out
}

var ownStrategy bool
var noHistory bool

var generators = map[string]func(seed uint64) *Scenario{"C14": genC14, "C15": genC15}

func genFor(prop string, base uint64, i int) *Scenario {
	g := generators[prop]
	if g == nil {
		fmt.Fprintf(os.Stderr, "hconc: no generator for property %s\n", prop)
		os.Exit(2)
	}
	return g(simrt.Mix(base, simrt.HashString(prop), uint64(i)))
}

type outcome struct {
	w       *world
	res     simrt.Result
	viol    []hlib.Violation
	trace   []simrt.Decision
	trouble string
}

func init() {
	log.SetOutput(io.Discard)
	stdlog.SetOutput(io.Discard) // some decoders report through the standard logger
	log.SetLevel(log.PanicLevel)
}

func runScenario(sc *Scenario, replay []simrt.Decision) *outcome {
	w := &world{sc: sc, results: map[uintptr]int{}, probes: hlib.Counter{}, faults: hlib.Counter{}, maxima: hlib.MaxCounter{},
		states: hlib.NewKMV(4096), trans: hlib.NewKMV(4096)}
	steps := 2000
	for _, t := range sc.Tasks {
		steps += 4000 * len(t.Ops)
		for _, op := range t.Ops {
			if op.K == "lookup" && op.R > 1 {
				steps += 40 * op.R
			}
		}
	}
	cfg := simrt.Config{MaxSteps: steps, Strategy: sc.Strategy.Build(), Replay: replay, Record: true, HB: true,
		OnStep: w.onStep, SharedPkg: func(string) bool { return true }}
	simrt.EnableShared(false)
	// The id counter is only ever moved FORWARD to the scenario's starting value (skipping ids is
	// always legal; moving it back would hand out ids again that generators with private state -
	// blocks reserved earlier - still own, and raise a false alarm on a correct generator).
	if common.VerifGetXid() < sc.XidStart {
		common.VerifSetXid(sc.XidStart)
	}
	w.xid0 = common.VerifGetXid()
	if sc.RefFirst {
		w.reference()
	}
	sim := simrt.New(cfg)
	w.sim = sim
	w.concurrent = true
	simrt.EnableShared(true)
	gc0 := numGC()
	res := sim.Run(func() {
		for i := range sc.Tasks {
			c := &taskCtx{id: i}
			w.ctx = append(w.ctx, c)
			p := &sc.Tasks[i]
			t := sim.Spawn("task", func() { w.runProgram(c, p) })
			t.Tag = c
		}
	})
	simrt.EnableShared(false)
	w.concurrent = false
	if res.EndKind == "quiescent" {
		for _, t := range sim.Tasks {
			if t.Site >= 0 && !t.Exited() {
				return &outcome{w: w, res: res, trouble: "the library started a goroutine (" + t.Name + ") that is still alive when every operation has returned: a background goroutine that outlives the run cannot be carried from one simulated run to the next - this harness cannot decide the property for such code"}
			}
		}
	}
	if numGC() != gc0 && len(sim.Races) > 0 {
		// a collection ran during the run (memory limit): freed addresses may have been reused,
		// the address-keyed race detector cannot be trusted for this run
		w.probes.Add("race_reports_dropped_gc_during_run", int64(len(sim.Races)))
		sim.Races = nil
	}
	o := &outcome{w: w, res: res, trace: sim.Trace}
	if sim.Fail != "" {
		o.trouble = sim.Fail
		return o
	}
	if !sc.RefFirst {
		w.reference()
	}
	if simrt.ForeignGo > 0 {
		o.trouble = "the library started a goroutine outside the simulated run (a background goroutine that outlives the run, e.g. a lazily started server): it would run outside the simulator's control in every later run - this harness cannot decide the property for such code"
		return o
	}
	w.finish(res)
	o.viol = w.viol
	return o
}

func (w *world) nontrivial() bool { return len(w.sc.Tasks) >= 2 && w.interleavedInside > 0 }

func main() {
	mode := flag.String("mode", "run", "run | replay | minimize | gen")
	prop := flag.String("property", "C14", "property id")
	seed := flag.Uint64("seed", 1, "base seed (VERIF_SEED)")
	from := flag.Int("from", 0, "first run index")
	count := flag.Int("count", 100, "number of runs")
	stride := flag.Int("stride", 1, "run index stride")
	out := flag.String("out", "", "output file (summary / replay)")
	file := flag.String("file", "", "replay file (replay/minimize)")
	limit := flag.Float64("time-limit", 0, "stop after this many seconds (0 = none)")
	det := flag.Bool("det", false, "record per-run digests (determinism self-test)")
	fresh := flag.Int("fresh", 0, "execute the first N runs of this worker in a fresh child process each")
	flag.String("tier", "quick", "quick | thorough")
	verbose := flag.Bool("v", false, "verbose")
	profileAlways := flag.Bool("profile", false, "profile kinds even for a single run")
	flag.BoolVar(&freshChild, "fresh-child", false, "this process executes one run in fresh library state (first-use scenarios)")
	flag.BoolVar(&noHistory, "no-history", false, "replay: ignore the recorded history of earlier runs")
	flag.BoolVar(&ownStrategy, "own-strategy", false, "replay: ignore recorded decisions, use the scenario's seeded strategy")
	flag.Parse()

	debug.SetGCPercent(-1)
	debug.SetMaxStack(256 << 20)
	simrt.StartWatchdog(60 * time.Second)
	exitWhenOrphaned()

	// fresh-process children (one run, library state as initialised) must not execute library
	// code before the run: they use uniform kind weights, and since they generate their own
	// scenario from (seed, index) the parent never needs to agree with them
	// (replay and minimisation work on explicit scenarios and must not touch the library before
	// the run either)
	if *mode == "gen" || (*mode == "run" && (*count > 1 || *fresh > 0 || *profileAlways)) {
		profileKinds()
		if simrt.ForeignGo > 0 {
			fmt.Fprintln(os.Stderr, "hconc: trouble: the library starts a background goroutine when it is used sequentially (outside any simulated run); it would run outside the simulator's control in every run - this harness cannot decide the property for such code")
			os.Exit(2)
		}
	}
	switch *mode {
	case "gen":
		b, _ := json.MarshalIndent(genFor(*prop, *seed, *from), "", " ")
		fmt.Println(string(b))
	case "run":
		sum := worker(*prop, *seed, *from, *count, *stride, *limit, *det, *fresh, *verbose)
		sum.Seal()
		b, err := json.Marshal(sum)
		if err != nil {
			fmt.Fprintln(os.Stderr, "hconc:", err)
			os.Exit(2)
		}
		if *out != "" {
			if err := os.WriteFile(*out, b, 0o644); err != nil {
				fmt.Fprintln(os.Stderr, "hconc:", err)
				os.Exit(2)
			}
		} else {
			os.Stdout.Write(b)
		}
		if sum.Trouble != "" {
			fmt.Fprintln(os.Stderr, "hconc: trouble:", sum.Trouble)
			os.Exit(2)
		}
	case "replay":
		os.Exit(replayMode(*file, *out, *verbose))
	case "minimize":
		os.Exit(minimizeMode(*file, *out, *verbose))
	default:
		fmt.Fprintln(os.Stderr, "unknown mode")
		os.Exit(2)
	}
}

func worker(prop string, base uint64, from, count, stride int, limit float64, det bool, fresh int, verbose bool) *hlib.Summary {
	sum := hlib.NewSummary(prop)
	sum.From = from
	if det {
		sum.DetHashes = map[string]uint64{}
	}
	start := time.Now()
	seenClass := map[string]int{}
	var history []int // run indices this process executed so far (not the fresh children)
	var fallback []byte
	fallbackSteps := 0
	for k := 0; k < count; k++ {
		i := from + k*stride
		if limit > 0 && time.Since(start).Seconds() > limit {
			break
		}
		if k < fresh {
			// a fresh process: package-level library state is as the Go initialisers left it
			// (lazy initialisation races are only visible on first use)
			tmp, err := os.CreateTemp("", "hconc-fresh-*.json")
			if err != nil {
				sum.Trouble = err.Error()
				break
			}
			tmp.Close()
			args := []string{"-mode", "run", "-property", prop, "-seed", strconv.FormatUint(base, 10), "-from", strconv.Itoa(i), "-count", "1", "-fresh-child", "-out", tmp.Name()}
			if det {
				args = append(args, "-det")
			}
			cctx, ccancel := context.WithTimeout(context.Background(), 5*time.Minute)
			cmd := exec.CommandContext(cctx, os.Args[0], args...)
			cmd.Env = os.Environ()
			cmd.Stderr = os.Stderr
			err = cmd.Run()
			ccancel()
			b, rerr := os.ReadFile(tmp.Name())
			os.Remove(tmp.Name())
			if rerr != nil || len(b) == 0 {
				sum.Trouble = fmt.Sprintf("fresh-process run %d failed: %v %v", i, err, rerr)
				break
			}
			var cs hlib.Summary
			if jerr := json.Unmarshal(b, &cs); jerr != nil {
				sum.Trouble = fmt.Sprintf("fresh-process run %d: %v", i, jerr)
				break
			}
			if cs.States != nil {
				sum.Merge(&cs)
			}
			for k, v := range cs.DetHashes {
				sum.DetHashes[k] = v
			}
			sum.Probes.Add("fresh_process_runs", 1)
			if sum.Trouble != "" {
				break
			}
			continue
		}
		sc := genFor(prop, base, i)
		o := runScenario(sc, nil)
		if o.trouble != "" {
			sum.Trouble = fmt.Sprintf("run %d (seed %d): %s", i, sc.RunSeed, o.trouble)
			break
		}
		histBefore := append([]int(nil), history...)
		history = append(history, i)
		w := o.w
		sum.Runs++
		sum.Steps += int64(o.res.Steps)
		sum.EndKinds.Add(o.res.EndKind, 1)
		sum.Strategies.Add(sc.Strategy.Kind, 1)
		sum.Classes.Add(fmt.Sprintf("tasks=%d", len(sc.Tasks)), 1)
		sum.Faults.Merge(w.faults)
		sum.Faults.Add("preemption_inside_library_call", int64(w.interleavedInside))
		sum.Probes.Merge(w.probes)
		sum.Probes.Add("context_switches", int64(w.sim.CtxSwitches))
		sum.Maxima.Merge(w.maxima)
		sum.Maxima.Obs("max_steps_per_run", float64(o.res.Steps))
		sum.Maxima.Obs("max_tasks", float64(len(sc.Tasks)))
		w.states.Seal()
		w.trans.Seal()
		sum.States.Merge(w.states)
		sum.Transitions.Merge(w.trans)
		sum.Traces.Add(o.res.Hash)
		if w.nontrivial() {
			sum.Nontrivial++
			sum.NontrivTraces.Add(o.res.Hash)
		}
		if det {
			sum.DetHashes[strconv.Itoa(i)] = o.res.Hash ^ uint64(o.res.Steps)<<48
		}
		nops := 0
		for _, t := range sc.Tasks {
			nops += len(t.Ops)
		}
		if len(sum.Samples) < 3 && w.nontrivial() && nops <= 14 && o.res.Steps < 300 {
			rf := ReplayFile{Property: prop, RunSeed: sc.RunSeed, Scenario: sc, Decisions: flatten(o.trace), Hash: o.res.Hash, Steps: o.res.Steps}
			b, _ := json.Marshal(rf)
			sum.Samples = append(sum.Samples, b)
		} else if w.nontrivial() && (fallback == nil || o.res.Steps < fallbackSteps) {
			// the smallest non-trivial run seen, in case no run is small enough for the rule above
			rf := ReplayFile{Property: prop, RunSeed: sc.RunSeed, Scenario: sc, Decisions: flatten(o.trace), Hash: o.res.Hash, Steps: o.res.Steps}
			fallback, _ = json.Marshal(rf)
			fallbackSteps = o.res.Steps
		}
		for _, v := range o.viol {
			v.RunIndex = i
			if v.Oracle == "harness" {
				sum.Trouble = v.Detail
				break
			}
			sum.ViolCounts.Add(v.Key(), 1)
			seenClass[v.Key()]++
			if seenClass[v.Key()] <= 3 && len(sum.Violations) < 24 {
				scb, _ := json.Marshal(sc)
				v.Scenario = scb
				v.Trace = flatten(o.trace)
				v.Hash = o.res.Hash
				v.History = &hlib.History{Seed: base, Indices: histBefore}
				sum.Violations = append(sum.Violations, v)
				if verbose {
					fmt.Fprintf(os.Stderr, "run %d seed %d: %s/%s %s: %s\n", i, sc.RunSeed, v.Oracle, v.Class, v.Site, v.Detail)
				}
			}
		}
		if sum.Trouble != "" {
			break
		}
		if k%16 == 15 || heapBig() {
			runtime.GC()
		}
	}
	if len(sum.Samples) == 0 && fallback != nil {
		sum.Samples = append(sum.Samples, fallback)
	}
	sum.WallS = time.Since(start).Seconds()
	sum.SiteHits = map[string]uint64{}
	for i, n := range simrt.SiteHits {
		if n > 0 && i < len(simrt.Sites) {
			s := simrt.Sites[i]
			if s.Kind == "r" || s.Kind == "w" || s.Kind == "atomic" || s.Kind == "p" || s.Kind == "sync" {
				sum.SiteHits[s.Name] += n
			}
		}
	}
	return sum
}

func loadReplay(path string) (*ReplayFile, error) {
	b, err := os.ReadFile(path)
	if err != nil {
		return nil, err
	}
	var rf ReplayFile
	if err := json.Unmarshal(b, &rf); err != nil {
		return nil, err
	}
	if rf.Scenario == nil {
		return nil, fmt.Errorf("replay file has no scenario")
	}
	return &rf, nil
}

func sameClass(a, b *hlib.Violation) bool {
	return a.Oracle == b.Oracle && a.Class == b.Class && a.Site == b.Site
}

func cloneScenario(sc *Scenario) *Scenario {
	b, _ := json.Marshal(sc)
	var c Scenario
	json.Unmarshal(b, &c)
	return &c
}

// replayMode: exit 1 = the recorded violation reproduced, 0 = it did not, 2 = trouble.
func replayMode(path, out string, verbose bool) int {
	rf, err := loadReplay(path)
	if err != nil {
		fmt.Fprintln(os.Stderr, "hconc:", err)
		return 2
	}
	if rf.History != nil && len(rf.History.Indices) > 0 && !noHistory {
		// bring the library into the state the worker had: same profiling, same earlier runs
		profileKinds()
		for _, idx := range rf.History.Indices {
			runScenario(genFor(rf.Property, rf.History.Seed, idx), nil)
		}
	}
	var dec []simrt.Decision
	if !ownStrategy {
		dec = unflatten(rf.Decisions)
		if dec == nil {
			dec = []simrt.Decision{}
		}
	}
	o := runScenario(rf.Scenario, dec)
	if o.trouble != "" {
		fmt.Fprintln(os.Stderr, "hconc: trouble:", o.trouble)
		return 2
	}
	fmt.Printf("replay: steps=%d end=%s hash=%d diverged=%d recorded_hash=%d\n", o.res.Steps, o.res.EndKind, o.res.Hash, o.w.sim.Diverged, rf.Hash)
	for _, v := range o.viol {
		fmt.Printf("replay: found %s/%s %s: %s\n", v.Oracle, v.Class, v.Site, v.Detail)
	}
	for _, v := range o.viol {
		if v.Oracle == "harness" {
			fmt.Fprintln(os.Stderr, "hconc: trouble:", v.Detail)
			return 2
		}
		if sameClass(&v, &rf.Violation) {
			exact := o.res.Hash == rf.Hash && o.w.sim.Diverged == 0
			fmt.Printf("REPRODUCED property=%s oracle=%s class=%s exact=%v\n", rf.Property, v.Oracle, v.Class, exact)
			if out != "" {
				res := ReplayFile{Property: rf.Property, RunSeed: rf.RunSeed, Tree: rf.Tree, Scenario: rf.Scenario, Decisions: flatten(o.trace),
					Violation: v, Hash: o.res.Hash, Steps: o.res.Steps, Minimised: rf.Minimised, History: rf.History}
				if noHistory {
					res.History = nil
				}
				b, _ := json.MarshalIndent(res, "", " ")
				if err := os.WriteFile(out, b, 0o644); err != nil {
					fmt.Fprintln(os.Stderr, "hconc:", err)
					return 2
				}
			}
			return 1
		}
	}
	fmt.Printf("NOT-REPRODUCED property=%s\n", rf.Property)
	return 0
}

type minimizer struct {
	target   hlib.Violation
	best     *Scenario
	bestDec  []simrt.Decision
	deadline time.Time
	tries    int
	hist     *hlib.History // earlier runs the violation depends on (nil: none)
}

// freshRun executes one candidate in a fresh child process (package-level library state
// must be as the Go initialisers left it, otherwise a minimised file would depend on what
// earlier candidates did to it) and returns the decision trace if the target class reproduced.
func (m *minimizer) freshRun(sc *Scenario, dec []simrt.Decision) ([]simrt.Decision, *ReplayFile, bool) {
	in, err := os.CreateTemp("", "hconc-min-in-*.json")
	if err != nil {
		return nil, nil, false
	}
	in.Close()
	outp := in.Name() + ".out"
	defer os.Remove(in.Name())
	defer os.Remove(outp)
	rf := ReplayFile{Property: sc.Property, RunSeed: sc.RunSeed, Scenario: sc, Decisions: flatten(dec), Violation: m.target, History: m.hist}
	if dec == nil {
		rf.Decisions = nil
	}
	b, _ := json.Marshal(rf)
	if err := os.WriteFile(in.Name(), b, 0o644); err != nil {
		return nil, nil, false
	}
	args := []string{"-mode", "replay", "-file", in.Name(), "-out", outp}
	if dec == nil {
		args = append(args, "-own-strategy")
	}
	cmd := exec.Command(os.Args[0], args...)
	cmd.Env = os.Environ()
	err = cmd.Run()
	ee, ok := err.(*exec.ExitError)
	if !ok || ee.ExitCode() != 1 {
		return nil, nil, false
	}
	ob, err := os.ReadFile(outp)
	if err != nil {
		return nil, nil, false
	}
	var res ReplayFile
	if json.Unmarshal(ob, &res) != nil {
		return nil, nil, false
	}
	return unflatten(res.Decisions), &res, true
}

func (m *minimizer) reproduces(sc *Scenario, dec []simrt.Decision) ([]simrt.Decision, bool) {
	m.tries++
	if heapBig() {
		runtime.GC() // the collector is off during runs
	}
	if dec != nil {
		if tr, _, ok := m.freshRun(sc, dec); ok {
			return tr, true
		}
	}
	if tr, _, ok := m.freshRun(sc, nil); ok {
		return tr, true
	}
	return nil, false
}

func (m *minimizer) try(c *Scenario) bool {
	if time.Now().After(m.deadline) {
		return false
	}
	if tr, ok := m.reproduces(c, m.bestDec); ok {
		m.best, m.bestDec = c, tr
		return true
	}
	return false
}

func (m *minimizer) shrinkList(n func() int, remove func(a, b int) *Scenario) {
	for chunk := (n() + 1) / 2; chunk >= 1; {
		progress := false
		for a := 0; a < n(); {
			b := a + chunk
			if b > n() {
				b = n()
			}
			if m.try(remove(a, b)) {
				progress = true
			} else {
				a = b
			}
			if time.Now().After(m.deadline) {
				return
			}
		}
		if chunk == 1 && !progress {
			break
		}
		if chunk > 1 {
			chunk /= 2
		}
	}
}

func (m *minimizer) run() {
	// 1. drop whole tasks (decisions refer to task ids: the tolerant replay falls back to the
	// default policy, and the candidate's own seeded strategy is tried as well)
	m.shrinkList(func() int { return len(m.best.Tasks) }, func(a, b int) *Scenario {
		c := cloneScenario(m.best)
		c.Tasks = append(c.Tasks[:a:a], c.Tasks[b:]...)
		return c
	})
	// 2. drop ops
	for ti := 0; ti < len(m.best.Tasks); ti++ {
		ti := ti
		m.shrinkList(func() int { return len(m.best.Tasks[ti].Ops) }, func(a, b int) *Scenario {
			c := cloneScenario(m.best)
			ops := c.Tasks[ti].Ops
			c.Tasks[ti].Ops = append(ops[:a:a], ops[b:]...)
			return c
		})
	}
	// 3. simplify knobs and op arguments
	{
		c := cloneScenario(m.best)
		if c.Strategy.Kind != "uniform" {
			c.Strategy = simrt.StrategySpec{Kind: "uniform", Seed: c.Strategy.Seed, Arm: "uniform"}
			m.try(c)
		}
	}
	for ti := range m.best.Tasks {
		for oi := range m.best.Tasks[ti].Ops {
			op := m.best.Tasks[ti].Ops[oi]
			if (op.K == "hdr" || op.K == "gen") && op.A > 1 {
				c := cloneScenario(m.best)
				c.Tasks[ti].Ops[oi].A = 1
				m.try(c)
			}
		}
	}
	// 4. shortest decision prefix that still reproduces under the default policy afterwards
	lo, hi := 0, len(m.bestDec)
	for lo < hi && !time.Now().After(m.deadline) {
		mid := (lo + hi) / 2
		m.tries++
		_, _, ok := m.freshRun(cloneScenario(m.best), append([]simrt.Decision{}, m.bestDec[:mid]...))
		if ok {
			hi = mid
		} else {
			lo = mid + 1
		}
	}
	if hi < len(m.bestDec) {
		if tr, _, ok := m.freshRun(cloneScenario(m.best), append([]simrt.Decision{}, m.bestDec[:hi]...)); ok {
			m.bestDec = tr
		}
	}
}

func minimizeMode(in, out string, verbose bool) int {
	rf, err := loadReplay(in)
	if err != nil {
		fmt.Fprintln(os.Stderr, "hconc:", err)
		return 2
	}
	m := &minimizer{target: rf.Violation, best: rf.Scenario, bestDec: unflatten(rf.Decisions), deadline: time.Now().Add(90 * time.Second)}
	tr, ok := m.reproduces(rf.Scenario, m.bestDec)
	if !ok && rf.History != nil && len(rf.History.Indices) > 0 {
		// not alone in a fresh process: the violation depends on library state earlier runs of
		// the worker left behind. Replay them first, and find out which of them matter.
		m.hist = &hlib.History{Seed: rf.History.Seed, Indices: append([]int(nil), rf.History.Indices...)}
		m.deadline = time.Now().Add(240 * time.Second)
		if tr, ok = m.reproduces(rf.Scenario, m.bestDec); ok {
			m.bestDec = tr
			idx := m.hist.Indices
			for chunk := (len(idx) + 1) / 2; chunk >= 1 && !time.Now().After(m.deadline); {
				progress := false
				for a := 0; a < len(idx); {
					b := a + chunk
					if b > len(idx) {
						b = len(idx)
					}
					cand := append(append([]int(nil), idx[:a]...), idx[b:]...)
					m.hist.Indices = cand
					if tr2, ok2 := m.reproduces(m.best, m.bestDec); ok2 {
						idx, m.bestDec, progress = cand, tr2, true
					} else {
						a = b
					}
					m.hist.Indices = idx
					if time.Now().After(m.deadline) {
						break
					}
				}
				if chunk == 1 && !progress {
					break
				}
				if chunk > 1 {
					chunk /= 2
				}
			}
			m.hist.Indices = idx
		}
	}
	if !ok {
		fmt.Fprintln(os.Stderr, "hconc: minimize: the recorded violation does not reproduce in a fresh process")
		return 3
	}
	m.bestDec = tr
	if m.hist == nil {
		m.run()
	}
	final := cloneScenario(m.best)
	ftr, fres, ok := m.freshRun(final, m.bestDec)
	if !ok {
		fmt.Fprintln(os.Stderr, "hconc: minimize: final candidate lost the violation")
		return 3
	}
	got := &fres.Violation
	o := &outcome{trace: ftr, res: simrt.Result{Hash: fres.Hash, Steps: fres.Steps}}
	nops := func(sc *Scenario) int {
		n := 0
		for _, t := range sc.Tasks {
			n += len(t.Ops)
		}
		return n
	}
	res := ReplayFile{Property: rf.Property, RunSeed: rf.RunSeed, Tree: rf.Tree, Scenario: final, Decisions: flatten(o.trace),
		Violation: *got, Hash: o.res.Hash, Steps: o.res.Steps, Minimised: true, History: m.hist}
	res.Violation.Scenario = nil
	res.Violation.Trace = nil
	b, _ := json.MarshalIndent(res, "", " ")
	if err := os.WriteFile(out, b, 0o644); err != nil {
		fmt.Fprintln(os.Stderr, "hconc:", err)
		return 2
	}
	if m.hist != nil {
		fmt.Printf("minimised: depends on library state left by earlier runs of the worker: history %d->%d runs\n", len(rf.History.Indices), len(m.hist.Indices))
	}
	fmt.Printf("minimised: tasks %d->%d, ops %d->%d, decisions %d->%d, %d candidate runs\n", len(rf.Scenario.Tasks), len(final.Tasks), nops(rf.Scenario), nops(final), len(rf.Decisions)/2, len(o.trace), m.tries)
	return 0
}

// heapBig reports whether the heap grew past a quarter GiB (the collector is off during runs).
func heapBig() bool {
	var ms runtime.MemStats
	runtime.ReadMemStats(&ms)
	return ms.HeapAlloc > 256<<20
}

func numGC() uint32 {
	var ms runtime.MemStats
	runtime.ReadMemStats(&ms)
	return ms.NumGC
}

// exitWhenOrphaned ends this process when its parent is gone (a worker killed by its parent's
// timeout once left fresh-process children behind that kept running for hours).
func exitWhenOrphaned() {
	ppid := os.Getppid()
	go func() {
		for {
			time.Sleep(2 * time.Second)
			if os.Getppid() != ppid {
				os.Exit(3)
			}
		}
	}()
}
