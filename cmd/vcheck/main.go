// vcheck is the driver of every registered check: it rebuilds the instrumented scratch copy
// from /repo's current working tree, fans simulation runs out over worker processes,
// minimises and replays candidate violations, matches them against known_findings.json,
// writes the evidence file and prints KNOWN-FINDING / VIOLATION lines.
//
// Exit codes: 0 property held on everything explored, 1 violation, 2 machinery trouble.
package main

import (
	"bytes"
	"context"
	"encoding/json"
	"flag"
	"fmt"
	"os"
	"os/exec"
	"path/filepath"
	"sort"
	"strconv"
	"strings"
	"sync"
	"time"

	"verif/build"
	"verif/instr"
	"verif/selftestgen"
)

type propConf struct {
	Harness   string
	Level     string
	QuickRuns int
	ThorRuns  int
	QuickSecs float64
	ThorSecs  float64
	Rule      string
	Assume    []string
	Fresh     int // runs per worker executed in a fresh child process each (package state as initialised)
	Real      []string
	Stub      []string
	Measure   string
}

var props = map[string]propConf{
	"C10": {Harness: "hstream", Level: "exploration", QuickRuns: 24000, ThorRuns: 1500000, QuickSecs: 300, ThorSecs: 900,
		Rule:   "Each run is one simulated execution of the real util.MessageStream (reader, 25 parsers, writer, shutdown and drain goroutines) against a scripted connection. Scenario and schedule are derived from splitmix(VERIF_SEED, property, run index): 0-400 well-formed frames (sizes 8..65535 biased to 8, <64, around 2048 and multiples of it), a read-chunk plan (whole reads, 1-byte dribble, small/any random sizes, or cuts placed at frame start +0..+8, end-1 and around multiples of 2048), optional (0,nil) reads, arrival bursts in simulated time, a connection failure (EOF/reset/timeout) at a frame boundary, inside a length prefix, mid-body, after the first frame, after the last byte or before the first, optional local shutdown, consumer behaviour (eager, think time, stalls in scheduler steps, busy periods of 5 ms-60 s of simulated time, stops) and slow parsers; arrival gaps up to 45 s; the simulated connection honours read and write deadlines against the simulated clock; a third of the runs use frames of the all-kinds corpus (parseable on the current tree) instead of header-only kinds; the schedule strategy is uniform, sticky(p), PCT(d) or starve(class, windows) with a select-arm bias. A run counts as non-trivial when it has at least 2 frames and either a frame was split across reads or the reader was scheduled while a filled buffer was waiting for a parser; distinct = distinct digests of the complete decision+event trace.",
		Assume: []string{"Go channel/goroutine semantics as implemented by the installed runtime", "SimConn follows *net.TCPConn semantics: Read returns n>0 or an error, never both; Write is atomic per call", "instrumenter preserves sequential semantics (the repository's unit tests pass on the instrumented copy; validated in the thorough tier)", "frames are pre-validated to parse to a non-nil message on the current tree so that codec defects are not imported into C10"}},
	"C11": {Harness: "hstream", Level: "exploration", QuickRuns: 24000, ThorRuns: 1500000, QuickSecs: 300, ThorSecs: 900,
		Rule:   "Each run is one simulated execution of the real util.MessageStream with 1-16 stub producer tasks submitting 0-100 messages each through the cap-1 Outbound channel (raw util.Message implementations with unique xids and PRNG bodies of 8..65535 bytes, top-level util.Buffer messages, occasional resubmission of the same object), the real writer goroutine and a scripted connection whose Write can stall in simulated time below the 10 s write deadline; a third of the runs also carry inbound traffic; 6% of the runs let one write run into the 10 s deadline (with or without part of the data accepted: the library ends the process by design and only the prefix property of the wire is judged), 5% request a local shutdown while producers submit (safety half only), and one run in 800 is a marathon of 66 000-70 000 minimal messages with peer stalls around message 65 536. Write and Close of the connection are scheduling points. Schedules as for C10. A run is non-trivial when at least 2 producers had overlapping submissions; distinct = distinct digests of the complete decision+event trace.",
		Assume: []string{"Go channel/goroutine semantics as implemented by the installed runtime", "SimConn.Write is atomic per call (net.Conn serialises concurrent writers)", "expected bytes of library messages come from an identically constructed twin object encoded once"}},
	"C12": {Harness: "hstream", Level: "exploration", QuickRuns: 12000, ThorRuns: 800000, QuickSecs: 300, ThorSecs: 900,
		Rule:   "Each run is one simulated execution of the real util.MessageStream fed with frames of the all-kinds corpus (an independent frame writer: every message kind openflow13.Parse decodes, every match-field, instruction, standard and Nicira action kind, multipart bodies, vendor and bundle messages, packet-in carrying Ethernet/VLAN/ARP/IPv4/IPv6+extension headers/ICMP/UDP/TCP/IGMP/DHCP/LLDP packets), a fifth of them additionally damaged in flight by one or two operators that leave them parseable; only frames the current tree parses to a non-nil message without error are used (C12 quantifies over parseable frames). The consumer holds every delivered message until the end of the run. The reuse of the input buffer is the injected fault, in two forms: natural recycling of the 50 pool buffers by later frames under slow/stalled consumers, and (half of the runs) an immediate overwrite of the whole input slice right after Parse returned. Oracles: at the instant Parse returns nothing reachable from the message points into the input buffer's backing array; at the end every held message deep-equals, and re-encodes like, a fresh control parse of a private copy of its bytes; the message's deep hash is unchanged since it was parsed. Schedules, chunkings and failures as for C10. Non-trivial as for C10; distinct = distinct digests of the complete decision+event trace.",
		Assume: []string{"Go channel/goroutine semantics as implemented by the installed runtime", "SimConn follows *net.TCPConn semantics", "reflection walk reaches every slice/pointer/string/map reachable from a message, including unexported fields", "a decoder reached by no corpus frame is not covered (see unreached_decoders in the evidence)"}},
	"C07": {Harness: "hstream", Level: "fault_enumeration", QuickRuns: 10000, ThorRuns: 1200000, QuickSecs: 300, ThorSecs: 900,
		Rule:   "Fault model: frames damaged in flight by the peer or the network. Each run is one simulation in one of three classes. Stream leg (45%): 1-24 frames, three quarters of them corpus frames damaged by 1-3 operators (a marked length/count/type field set to 0,1,2,3,4,7,8,15,16,max,max-1,max/2,cur+-1,+-4,+8,*2,remaining length+-1,total(+1); truncation with the header length rewritten; byte overwrite; bit flip; aligned 16-bit overwrite; +-1/+-4 on a byte or word; duplicated or deleted 4/8/12-byte block; PRNG tail; zero/ones runs; another ofp_type or version) that keep the framing, travel through the real de-framer into the 25 real parser goroutines under a seeded schedule, followed by 1-5 valid frames that must still be delivered; 12% of the corpus frames are sent undamaged (unusual but well-formed: conntrack nested 3-60 deep, maximum sizes, rare kinds) and a fifth of the stream legs end with a desynchronising tail (header length field 0-9, 12 or arbitrary, followed by garbage) that the reader and the parsers must survive. Direct leg sampled (40%): 8-64 damaged byte strings (also shorter than a header, inconsistent length) handed to openflow13.Parse by a stub task. Direct leg enumerated (15%): for one corpus frame shape, truncation at every offset (with and without rewritten length) and every marked field x every replacement value. Oracles per decoder call: no panic escapes; at most 4096+32*len instrumented loop iterations+function entries; at most 1 MiB+64*len bytes requested from non-constant make(); and on the stream leg: all parser goroutines alive and every later valid frame delivered at quiescence. Non-trivial = the damaged bytes reached a decoder past the 8-byte header; distinct = distinct digests of the decision+event trace (the input bytes are folded into it).",
		Assume: []string{"inputs are within 1-3 damage operators of a frame of the all-kinds corpus; byte strings far from every corpus frame are not explored", "CPU time inside non-instrumented callees (copy, bytes.Buffer, binary.Read) is linear in sizes bounded by the allocation budget", "instrumenter inserts a tick at every loop body, function entry and goto target of the library", "Parse returning (nil, nil) for message types it does not decode is recorded, not flagged"}},
	"C08": {Harness: "hstream", Level: "fault_enumeration", QuickRuns: 16000, ThorRuns: 1200000, QuickSecs: 300, ThorSecs: 900,
		Rule:   "Fault model: packets damaged or forged by network endpoints, reaching the controller inside packet-in frames. Same three run classes and damage operators as C07, applied to the packet region of hand-written packet-in frames carrying corpus packets (Ethernet, VLAN, ARP, IPv4 with options, IPv6 with hop-by-hop/routing/fragment headers and options, ICMP, UDP, TCP, IGMP v1-v3, DHCP with options, LLDP TLVs), with positions biased to the marked length-like fields (IHL, total length, next header, header-extension length, option length, hardware/protocol length, source/group counts, DHCP option lengths, TLV lengths). On the stream leg the automatically demultiplexed decoders run inside the parser goroutines and the stub controller application then runs the second-stage decoders (TCP, IGMP, DHCP, LLDP...) in the consumer task; direct legs address one decoder entry point per run with damaged bare inputs (sampled, or enumerated: every truncation offset and every marked field x every value). Oracles as C07 (no panic, tick budget, allocation budget, stream survives).",
		Assume: []string{"inputs are within 1-3 damage operators of a packet of the corpus", "CPU time inside non-instrumented callees is linear in sizes bounded by the allocation budget", "the stub application's demux follows what controller applications do (IPv4 proto 6 -> TCP, proto 2 -> IGMP, UDP 67/68 -> DHCP, ethertype 0x88cc -> LLDP)"}},
	"C14": {Harness: "hconc", Level: "exploration", QuickRuns: 60000, ThorRuns: 8000000, QuickSecs: 300, ThorSecs: 900, Fresh: 12,
		Rule:    "Each run is one simulated execution of 2-64 tasks (real goroutines, one released at a time by the seeded scheduler). Every task executes a PRNG-generated program of up to 40 operations on values it alone owns: draw headers from the process-wide generator and from private generators, build messages of every kind through the library's constructors and adders, Len/MarshalBinary, openflow13.Parse of independently generated frames, packet-header decoders, registry lookups and mutation of their results. Scheduling points sit at every access to package-level variables, closure-captured variables, atomics and sync primitives inside the library (the only places where tasks working on independent values can influence each other). Strategies: PCT(depth 0-6), uniform, sticky, starvation windows; the op mix varies per run (id-heavy, codec-heavy, mixed); kinds are weighted by the rarity of the shared-state sites they touch (profiled sequentially at start); a quarter of the runs are homogeneous swarms (every task runs the same operation: 3-4 tasks 5-30 times up to 17-64 tasks once or twice). The first 12 runs of every worker execute in a fresh process each with first-use scenarios (2-8 tasks whose first operations are of the same kind, nothing touching the library before the run) so that lazy initialisation and first-draw behaviour is explored. A run is non-trivial when at least one task was pre-empted inside a library call (parked at a shared-state gate while another task ran); distinct = distinct digests of the complete decision+event trace.",
		Assume:  []string{"Go goroutine/atomic semantics as implemented by the installed runtime (sequentially consistent atomics)", "partial-order reduction: tasks operating on independent values interact only through instrumented shared locations (package-level variables, captured variables, atomics, sync objects); interleavings elsewhere cannot change an outcome", "race detection covers instrumented locations and method calls on objects rooted in package-level variables, not arbitrary heap objects", "runs never cross the 32-bit wrap of the id counter (excluded by the property)"},
		Real:    []string{"common (header generator, messageXid, hello)", "openflow13 constructors, encoders, decoders, Parse, field registry", "protocol encoders/decoders incl. DHCP tables", "util", "Go runtime goroutines and atomics"},
		Stub:    []string{"caller goroutines (task programs from the PRNG)", "choice of the next goroutine at every shared-state access (seeded strategy)", "initial value of the id counter (reset per run for replay)"},
		Measure: "abstract state = (multiset of (gate kind, gate site) over all tasks, ids issued so far); transitions = (state, state'); counts above 16384 are k-minimum-values estimates"},
	"C15": {Harness: "hconc", Level: "exploration", QuickRuns: 60000, ThorRuns: 3000000, QuickSecs: 300, ThorSecs: 900, Fresh: 6,
		Rule:    "Each run is one simulated execution of 2-32 tasks. Every registered field name (122, from a table transcribed from OpenFlow 1.3.5 and OVS meta-flow.h) is looked up in both mask modes in every run, dealt to the tasks in shuffled order and in random letter case, interleaved with repeated lookups of hot names, mutation of everything reachable from earlier results, re-checks of held results and message builds that use the registry. A scheduling point precedes every operation and every access to the registry variable. Oracles at each lookup: class/field/width/mask flag equal the specification table (variable-length tun_metadata: class and field only), the result is an object no earlier lookup returned; at every re-check and at the end: a held result has exactly the value its holder last gave it; happens-before race detector on library state. The pure clauses (2^32 pack/unpack inverse, completeness of the name table) are NOT decided here. Non-trivial = at least one task pre-empted inside a library call.",
		Assume:  []string{"Go goroutine semantics as implemented by the installed runtime", "reference table transcribed correctly from OpenFlow 1.3.5 Table 12 and OVS nicira-ext.h/meta-flow.h (DESIGN.md Appendix C)", "race detection covers instrumented locations, not arbitrary heap objects; sharing of result objects is detected by identity and by observing foreign changes"},
		Real:    []string{"openflow13.FindFieldHeaderByName and the registry", "constructors that use the registry", "Go runtime goroutines"},
		Stub:    []string{"caller goroutines (task programs from the PRNG)", "choice of the next goroutine (seeded strategy)"},
		Measure: "abstract state = (multiset of (gate kind, gate site) over all tasks, ids issued so far); transitions = (state, state'); counts above 16384 are k-minimum-values estimates"},
}

type knownFinding struct {
	Status    string `json:"status"`
	Property  string `json:"property"`
	ID        string `json:"id"`
	Commit    string `json:"commit,omitempty"`
	What      string `json:"what"`
	Signature struct {
		Oracle string `json:"oracle"`
		Class  string `json:"class"`
		Site   string `json:"site,omitempty"`
	} `json:"signature"`
}

type violation struct {
	Property string          `json:"property"`
	Oracle   string          `json:"oracle"`
	Class    string          `json:"class"`
	Site     string          `json:"site,omitempty"`
	Detail   string          `json:"detail"`
	RunSeed  uint64          `json:"run_seed"`
	RunIndex int             `json:"run_index"`
	Scenario json.RawMessage `json:"scenario,omitempty"`
	Trace    []int32         `json:"decisions,omitempty"`
	Hash     uint64          `json:"hash,omitempty"`
	History  json.RawMessage `json:"history,omitempty"`
}

func (v *violation) key() string { return v.Property + "|" + v.Oracle + "|" + v.Class + "|" + v.Site }

func die(code int, format string, a ...any) {
	fmt.Fprintf(os.Stderr, "vcheck: "+format+"\n", a...)
	os.Exit(code)
}

func scratchDir() string {
	base := os.Getenv("VERIF_SCRATCH")
	if base == "" {
		base = "/var/tmp"
	}
	os.MkdirAll(base, 0o755)
	d, err := os.MkdirTemp(base, "vcheck-")
	if err != nil {
		die(2, "cannot create scratch dir: %v", err)
	}
	return d
}

func main() {
	prepare := flag.String("prepare", "", "dev: only assemble and build the instrumented scratch copy into this directory")
	repo := flag.String("repo", "/repo", "repository working tree")
	verif := flag.String("verif", "/verif", "verification directory")
	prop := flag.String("property", "", "property id")
	tier := flag.String("tier", "quick", "quick | thorough")
	replay := flag.String("replay", "", "replay a file written by a check")
	workers := flag.Int("workers", 16, "worker processes")
	runsFlag := flag.Int("runs", 0, "override the number of runs")
	keep := flag.Bool("keep", false, "keep the scratch directory")
	selftest := flag.Int("selftest", 0, "differential self-test of instrumenter + runtime: N generated programs, native vs simulated")
	stSeeds := flag.Int("selftest-seeds", 40, "schedules per generated program in -selftest")
	stGen := flag.Int64("selftest-gen", 1, "generator seed for -selftest")
	detProcs := flag.Int("determinism", 0, "determinism self-test: run the same run indices of -property in this many fresh processes at GOMAXPROCS 1/4/16 and compare the per-run digests")
	detRuns := flag.Int("determinism-runs", 150, "run indices per process in -determinism")
	flag.Parse()
	if *selftest > 0 {
		os.Exit(doSelfTest(*verif, *selftest, *stSeeds, *stGen, *keep))
	}
	if *detProcs > 0 {
		pc, ok := props[*prop]
		if !ok {
			die(2, "unknown or unclaimed property %q", *prop)
		}
		s := uint64(1)
		if v, err := strconv.ParseUint(os.Getenv("VERIF_SEED"), 10, 64); err == nil {
			s = v
		}
		os.Exit(doDeterminism(*repo, *verif, *prop, pc, s, *detProcs, *detRuns, *keep))
	}

	if *prepare != "" {
		res, err := build.Prepare(*repo, *verif, *prepare, flag.Args(), os.Stderr)
		if err != nil {
			die(2, "%v", err)
		}
		fmt.Println(res.Scratch)
		return
	}
	if t := os.Getenv("VERIF_TIER"); t == "quick" || t == "thorough" {
		*tier = t
	}
	seed := uint64(1)
	if s := os.Getenv("VERIF_SEED"); s != "" {
		v, err := strconv.ParseUint(s, 10, 64)
		if err != nil {
			if iv, err2 := strconv.ParseInt(s, 10, 64); err2 == nil {
				v = uint64(iv)
			} else {
				die(2, "bad VERIF_SEED %q", s)
			}
		}
		seed = v
	}
	if *replay != "" {
		os.Exit(doReplay(*repo, *verif, *replay, *keep))
	}
	pc, ok := props[*prop]
	if !ok {
		die(2, "unknown or unclaimed property %q", *prop)
	}
	os.Exit(doCheck(*repo, *verif, *prop, pc, *tier, seed, *workers, *runsFlag, *keep))
}

// doSelfTest generates random schedule-confluent concurrent programs, runs them natively and,
// after instrumentation, under the simulator with many seeded schedules, and compares the
// outcomes. Exit 0 = all agree, 1 = a disagreement (a bug in instr or simrt), 2 = trouble.
func doSelfTest(verif string, n, seeds int, genSeed int64, keep bool) int {
	scratch := scratchDir()
	if !keep {
		defer os.RemoveAll(scratch)
	}
	orig := filepath.Join(scratch, "orig")
	inst := filepath.Join(scratch, "inst")
	for _, d := range []string{orig, inst} {
		if err := selftestgen.Generate(filepath.Join(d, "selftest"), n, genSeed); err != nil {
			die(2, "%v", err)
		}
		os.WriteFile(filepath.Join(d, "go.mod"), []byte("module selftestmod\n\ngo 1.19\n"), 0o644)
	}
	os.MkdirAll(filepath.Join(orig, "cmd", "native"), 0o755)
	os.WriteFile(filepath.Join(orig, "cmd", "native", "main.go"), []byte(selftestgen.NativeMain), 0o644)
	rep, err := instr.Run(inst)
	if err != nil {
		die(2, "instrument: %v", err)
	}
	if len(rep.Unsupported) > 0 {
		die(2, "instrumenter met constructs it does not model: %v", rep.Unsupported)
	}
	if err := build.CopySimrt(verif, inst, rep); err != nil {
		die(2, "%v", err)
	}
	os.MkdirAll(filepath.Join(inst, "cmd", "simrun"), 0o755)
	os.WriteFile(filepath.Join(inst, "cmd", "simrun", "main.go"), []byte(selftestgen.SimMain), 0o644)
	run := func(dir string, args ...string) (string, error) {
		c := exec.Command("go", args...)
		c.Dir = dir
		c.Env = build.Env()
		out, err := c.CombinedOutput()
		return string(out), err
	}
	nat, err := run(orig, "run", "./cmd/native")
	if err != nil {
		fmt.Fprintf(os.Stderr, "vcheck: native run failed: %v\n%s\n", err, nat)
		return 2
	}
	want := map[string]string{}
	for _, l := range strings.Split(strings.TrimSpace(nat), "\n") {
		if i := strings.IndexByte(l, ' '); i > 0 {
			want[l[:i]] = l[i+1:]
		}
	}
	if out, err := run(inst, "build", "-tags", "verif", "-o", "simrun", "./cmd/simrun"); err != nil {
		fmt.Fprintf(os.Stderr, "vcheck: instrumented self-test programs do not build:\n%s\n", out)
		return 1
	}
	c := exec.Command(filepath.Join(inst, "simrun"), "-seeds", strconv.Itoa(seeds), "-digests")
	c.Env = append(os.Environ(), "GOMAXPROCS=1", "GOMEMLIMIT=3GiB")
	simOut, simErr := c.CombinedOutput()
	// the same schedules again in a second process with real parallelism available: every run
	// digest (decisions + steps) must be identical
	c2 := exec.Command(filepath.Join(inst, "simrun"), "-seeds", strconv.Itoa(seeds), "-digests")
	c2.Env = append(os.Environ(), "GOMAXPROCS=8")
	simOut2, _ := c2.CombinedOutput()
	if string(simOut) != string(simOut2) {
		fmt.Println("selftest: the simulated runs are not deterministic: outputs of two processes (GOMAXPROCS 1 and 8) differ")
		return 1
	}
	bad, runs := 0, 0
	for _, l := range strings.Split(strings.TrimSpace(string(simOut)), "\n") {
		i := strings.IndexByte(l, ' ')
		if i <= 0 || strings.HasPrefix(l, "#") {
			continue
		}
		runs++
		if got := l[i+1:]; got != want[l[:i]] {
			bad++
			if bad <= 10 {
				fmt.Printf("selftest: program %s: simulated %q, native %q\n", l[:i], got, want[l[:i]])
			}
		}
	}
	fmt.Printf("selftest: %d programs, %d simulated runs, %d disagreements (instrumentation: %v)\n", n, runs, bad, rep.Counts)
	if bad > 0 || simErr != nil || runs != n*seeds {
		if simErr != nil {
			fmt.Fprintf(os.Stderr, "vcheck: simulated run: %v\n", simErr)
		}
		return 1
	}
	return 0
}

// doDeterminism executes the same run indices in many fresh processes under different
// GOMAXPROCS settings and compares the per-run digests (decisions + harness events + steps).
func doDeterminism(repo, verif, prop string, pc propConf, seed uint64, procs, runs int, keep bool) int {
	scratch := scratchDir()
	if !keep {
		defer os.RemoveAll(scratch)
	}
	res, err := build.Prepare(repo, verif, scratch, []string{pc.Harness}, os.Stdout)
	if err != nil {
		fmt.Fprintf(os.Stderr, "vcheck: %v\n", err)
		return 2
	}
	wdir := filepath.Join(scratch, "work")
	os.MkdirAll(wdir, 0o755)
	outs := make([]*summary, procs)
	errs := make([]error, procs)
	var wg sync.WaitGroup
	sem := make(chan struct{}, 16)
	for k := 0; k < procs; k++ {
		wg.Add(1)
		go func(k int) {
			defer wg.Done()
			sem <- struct{}{}
			defer func() { <-sem }()
			args := []string{"-mode", "run", "-property", prop, "-seed", strconv.FormatUint(seed, 10), "-from", "0", "-stride", "3", "-count", strconv.Itoa(runs), "-det"}
			if pc.Fresh > 0 {
				args = append(args, "-fresh", "2")
			}
			outs[k], errs[k] = runWorker(res.Bins[pc.Harness], args, []int{1, 4, 16}[k%3], filepath.Join(wdir, fmt.Sprintf("d%d.json", k)), 30*time.Minute)
		}(k)
	}
	wg.Wait()
	for k, e := range errs {
		if e != nil {
			fmt.Fprintf(os.Stderr, "vcheck: process %d: %v\n", k, e)
			return 2
		}
	}
	mism := 0
	for k := 1; k < procs; k++ {
		for idx, h := range outs[0].DetHashes {
			if h2, ok := outs[k].DetHashes[idx]; !ok || h2 != h {
				mism++
				if mism <= 10 {
					fmt.Printf("determinism: run index %s: process 0 (GOMAXPROCS 1) digest %d, process %d (GOMAXPROCS %d) digest %d\n", idx, h, k, []int{1, 4, 16}[k%3], h2)
				}
			}
		}
	}
	fmt.Printf("determinism: property %s: %d processes x %d run indices at GOMAXPROCS 1/4/16, %d digest mismatches\n", prop, procs, len(outs[0].DetHashes), mism)
	if mism > 0 {
		return 1
	}
	return 0
}

func treeID(repo string) string {
	out, _ := exec.Command("git", "-C", repo, "rev-parse", "--short", "HEAD").Output()
	id := strings.TrimSpace(string(out))
	st, _ := exec.Command("git", "-C", repo, "status", "--porcelain").Output()
	if len(bytes.TrimSpace(st)) > 0 {
		id += "+dirty"
	}
	return id
}

func doReplay(repo, verif, path string, keep bool) int {
	b, err := os.ReadFile(path)
	if err != nil {
		die(2, "%v", err)
	}
	var hdr struct {
		Property string `json:"property"`
	}
	if err := json.Unmarshal(b, &hdr); err != nil {
		die(2, "bad replay file: %v", err)
	}
	pc, ok := props[hdr.Property]
	if !ok {
		die(2, "replay file is for unknown property %q", hdr.Property)
	}
	scratch := scratchDir()
	if !keep {
		defer os.RemoveAll(scratch)
	}
	res, err := build.Prepare(repo, verif, scratch, []string{pc.Harness}, os.Stderr)
	if err != nil {
		fmt.Fprintf(os.Stderr, "vcheck: %v\n", err)
		os.RemoveAll(scratch)
		return 2
	}
	abs, _ := filepath.Abs(path)
	cmd := exec.Command(res.Bins[pc.Harness], "-mode", "replay", "-file", abs, "-v")
	cmd.Env = append(os.Environ(), "GOMAXPROCS=1", "GOMEMLIMIT=3GiB")
	cmd.Stdout, cmd.Stderr = os.Stdout, os.Stderr
	err = cmd.Run()
	code := 0
	if ee, ok := err.(*exec.ExitError); ok {
		code = ee.ExitCode()
	} else if err != nil {
		code = 2
	}
	if code == 1 {
		fmt.Printf("VIOLATION property=%s replay=%s\n", hdr.Property, abs)
	}
	if !keep {
		os.RemoveAll(scratch)
	}
	return code
}

type summary struct {
	Property      string             `json:"property"`
	Runs          int                `json:"runs"`
	Nontrivial    int                `json:"nontrivial"`
	Steps         int64              `json:"steps"`
	SimTimeNS     int64              `json:"sim_time_ns"`
	WallS         float64            `json:"wall_s"`
	Faults        map[string]int64   `json:"faults"`
	Probes        map[string]int64   `json:"probes"`
	Strategies    map[string]int64   `json:"strategies"`
	Classes       map[string]int64   `json:"config_classes"`
	EndKinds      map[string]int64   `json:"end_kinds"`
	Maxima        map[string]float64 `json:"maxima"`
	States        kmv                `json:"states"`
	Transitions   kmv                `json:"transitions"`
	Traces        kmv                `json:"traces"`
	NontrivTraces kmv                `json:"nontrivial_traces"`
	Violations    []violation        `json:"violations"`
	ViolCounts    map[string]int64   `json:"violation_counts"`
	Samples       []json.RawMessage  `json:"samples"`
	SiteHits      map[string]uint64  `json:"site_hits"`
	Trouble       string             `json:"trouble"`
	DetHashes     map[string]uint64  `json:"det_hashes"`
	Extra         map[string]any     `json:"extra"`
}

type kmv struct {
	K    int      `json:"k"`
	Vals []uint64 `json:"vals"`
}

func (k *kmv) merge(o kmv) {
	if k.K == 0 {
		k.K = o.K
	}
	m := map[uint64]struct{}{}
	for _, v := range k.Vals {
		m[v] = struct{}{}
	}
	for _, v := range o.Vals {
		m[v] = struct{}{}
	}
	all := make([]uint64, 0, len(m))
	for v := range m {
		all = append(all, v)
	}
	sort.Slice(all, func(i, j int) bool { return all[i] < all[j] })
	if k.K > 0 && len(all) > k.K {
		all = all[:k.K]
	}
	k.Vals = all
}

func (k *kmv) estimate() int64 {
	n := len(k.Vals)
	if k.K == 0 || n < k.K {
		return int64(n)
	}
	kth := k.Vals[n-1]
	if kth == 0 {
		return int64(n)
	}
	return int64(float64(n-1) / (float64(kth) / float64(^uint64(0))))
}

func addMap(dst, src map[string]int64) {
	for k, v := range src {
		dst[k] += v
	}
}

func runWorker(bin string, args []string, gomaxprocs int, outFile string, timeout time.Duration) (*summary, error) {
	cmd := exec.Command(bin, append(args, "-out", outFile)...)
	cmd.Env = append(os.Environ(), fmt.Sprintf("GOMAXPROCS=%d", gomaxprocs), "GOMEMLIMIT=2GiB")
	var stderr bytes.Buffer
	cmd.Stderr = &stderr
	done := make(chan error, 1)
	if err := cmd.Start(); err != nil {
		return nil, err
	}
	go func() { done <- cmd.Wait() }()
	select {
	case err := <-done:
		if err != nil {
			tail := stderr.String()
			if len(tail) > 6000 {
				tail = tail[len(tail)-6000:]
			}
			return nil, fmt.Errorf("worker failed: %v\n%s", err, tail)
		}
	case <-time.After(timeout):
		cmd.Process.Kill()
		return nil, fmt.Errorf("worker exceeded the wall-clock watchdog (%v)", timeout)
	}
	b, err := os.ReadFile(outFile)
	if err != nil {
		return nil, err
	}
	var s summary
	if err := json.Unmarshal(b, &s); err != nil {
		return nil, fmt.Errorf("worker summary: %v", err)
	}
	return &s, nil
}

func doCheck(repo, verif, prop string, pc propConf, tier string, seed uint64, workers, runsOverride int, keep bool) int {
	start := time.Now()
	fmt.Printf("vcheck: property=%s tier=%s VERIF_SEED=%d tree=%s\n", prop, tier, seed, treeID(repo))
	scratch := scratchDir()
	cleanup := func() {
		if !keep {
			os.RemoveAll(scratch)
		}
	}
	res, err := build.Prepare(repo, verif, scratch, []string{pc.Harness}, os.Stdout)
	if err != nil {
		fmt.Fprintf(os.Stderr, "vcheck: %v\n", err)
		cleanup()
		return 2
	}
	bin := res.Bins[pc.Harness]
	instrValidated := false
	if tier == "thorough" {
		// instrumenter validation: the repository's own tests must pass on the instrumented
		// copy (simulator inactive) - instrumentation must not change sequential behaviour
		tc := exec.Command("go", "test", "-tags", "verif", "-vet=off", "-count=1", "./openflow13/", "./protocol/")
		tc.Dir = scratch
		tc.Env = build.Env()
		if out, err := tc.CombinedOutput(); err != nil {
			fmt.Fprintf(os.Stderr, "vcheck: the repository's tests fail on the instrumented copy (machinery trouble, or the tree's own tests fail):\n%s\n", out)
			cleanup()
			return 2
		}
		instrValidated = true
		fmt.Println("vcheck: repository tests pass on the instrumented copy")
	}
	runs, secs := pc.QuickRuns, pc.QuickSecs
	if tier == "thorough" {
		runs, secs = pc.ThorRuns, pc.ThorSecs
	}
	if runsOverride > 0 {
		runs = runsOverride
	}
	if workers < 1 {
		workers = 1
	}
	per := (runs + workers - 1) / workers
	wdir := filepath.Join(scratch, "work")
	os.MkdirAll(wdir, 0o755)

	var mu sync.Mutex
	var sums []*summary
	var werr error
	var wg sync.WaitGroup
	for k := 0; k < workers; k++ {
		wg.Add(1)
		go func(k int) {
			defer wg.Done()
			args := []string{"-mode", "run", "-property", prop, "-tier", tier, "-seed", strconv.FormatUint(seed, 10),
				"-from", strconv.Itoa(k), "-stride", strconv.Itoa(workers), "-count", strconv.Itoa(per),
				"-time-limit", strconv.FormatFloat(secs, 'f', 0, 64)}
			if pc.Fresh > 0 {
				args = append(args, "-fresh", strconv.Itoa(pc.Fresh))
			}
			s, err := runWorker(bin, args, 1, filepath.Join(wdir, fmt.Sprintf("w%d.json", k)), time.Duration(secs*3+120)*time.Second)
			mu.Lock()
			defer mu.Unlock()
			if err != nil {
				if werr == nil {
					werr = err
				}
				return
			}
			sums = append(sums, s)
		}(k)
	}
	// determinism self-check: the same run indices in two fresh processes at different GOMAXPROCS
	detN := 48
	if tier == "thorough" {
		detN = 400
	}
	var det [2]*summary
	var detErr error
	for d := 0; d < 2; d++ {
		wg.Add(1)
		go func(d int) {
			defer wg.Done()
			args := []string{"-mode", "run", "-property", prop, "-tier", tier, "-seed", strconv.FormatUint(seed, 10),
				"-from", "0", "-stride", "7", "-count", strconv.Itoa(detN), "-det"}
			if pc.Fresh > 0 {
				args = append(args, "-fresh", "2")
			}
			s, err := runWorker(bin, args, []int{4, 1}[d], filepath.Join(wdir, fmt.Sprintf("det%d.json", d)), time.Duration(secs*3+120)*time.Second)
			mu.Lock()
			defer mu.Unlock()
			if err != nil {
				detErr = err
				return
			}
			det[d] = s
		}(d)
	}
	wg.Wait()
	// A worker that died (watchdog, out of memory) means this invocation cannot say "held": exit 2.
	// Violations that the surviving workers found are reported all the same, but only if they
	// reproduce from their replay files in a fresh process (the same rule as for a determinism
	// mismatch below): a change that makes one run stall for minutes of wall-clock must not hide
	// the deterministic violations it causes in other runs.
	workerTrouble := ""
	if werr != nil || detErr != nil {
		if werr == nil {
			werr = detErr
		}
		fmt.Fprintf(os.Stderr, "vcheck: %v\n", werr)
		found := 0
		for _, s := range sums {
			found += len(s.Violations)
		}
		if found == 0 {
			cleanup()
			return 2
		}
		workerTrouble = strings.SplitN(werr.Error(), "\n", 2)[0]
	}
	detChecked := 0
	detMismatch := ""
	if det[0] == nil || det[1] == nil {
		det[0], det[1] = &summary{}, &summary{}
	}
	for k, h := range det[0].DetHashes {
		if h2, ok := det[1].DetHashes[k]; !ok || h2 != h {
			// Two processes disagreed on the same run. Either the machinery is not deterministic or
			// the code under test is not (map iteration order, a real race made visible...). If a
			// violation is found and reproduces from its replay file it is reported all the same;
			// without one this run cannot be trusted and ends with exit 2.
			if detMismatch == "" {
				detMismatch = fmt.Sprintf("run index %s digests %d vs %d", k, h, h2)
			}
			continue
		}
		detChecked++
	}

	// merge
	tot := &summary{Property: prop, Faults: map[string]int64{}, Probes: map[string]int64{}, Strategies: map[string]int64{},
		Classes: map[string]int64{}, EndKinds: map[string]int64{}, Maxima: map[string]float64{}, ViolCounts: map[string]int64{}, SiteHits: map[string]uint64{}}
	sort.Slice(sums, func(i, j int) bool { return len(sums[i].Violations) > len(sums[j].Violations) })
	maxWall := 0.0
	for _, s := range sums {
		if s.Trouble != "" {
			fmt.Fprintf(os.Stderr, "vcheck: harness trouble: %s\n", s.Trouble)
			cleanup()
			return 2
		}
		tot.Runs += s.Runs
		tot.Nontrivial += s.Nontrivial
		tot.Steps += s.Steps
		tot.SimTimeNS += s.SimTimeNS
		if s.WallS > maxWall {
			maxWall = s.WallS
		}
		addMap(tot.Faults, s.Faults)
		addMap(tot.Probes, s.Probes)
		addMap(tot.Strategies, s.Strategies)
		addMap(tot.Classes, s.Classes)
		addMap(tot.EndKinds, s.EndKinds)
		addMap(tot.ViolCounts, s.ViolCounts)
		for k, v := range s.Maxima {
			if v > tot.Maxima[k] {
				tot.Maxima[k] = v
			}
		}
		for k, v := range s.SiteHits {
			tot.SiteHits[k] += v
		}
		tot.States.merge(s.States)
		tot.Transitions.merge(s.Transitions)
		tot.Traces.merge(s.Traces)
		tot.NontrivTraces.merge(s.NontrivTraces)
		tot.Violations = append(tot.Violations, s.Violations...)
		if len(tot.Samples) < 3 {
			tot.Samples = append(tot.Samples, s.Samples...)
		}
	}
	if len(tot.Samples) > 3 {
		tot.Samples = tot.Samples[:3]
	}

	// known findings
	var known []knownFinding
	if b, err := os.ReadFile(filepath.Join(verif, "known_findings.json")); err == nil {
		if err := json.Unmarshal(b, &known); err != nil {
			fmt.Fprintf(os.Stderr, "vcheck: known_findings.json: %v\n", err)
			cleanup()
			return 2
		}
	}
	matchKnown := func(v *violation) *knownFinding {
		for i := range known {
			k := &known[i]
			if k.Status != "open" || k.Property != v.Property {
				continue
			}
			if k.Signature.Oracle == v.Oracle && k.Signature.Class == v.Class && (k.Signature.Site == "" || k.Signature.Site == v.Site) {
				return k
			}
		}
		return nil
	}

	// one representative per class, deterministic order
	sort.SliceStable(tot.Violations, func(i, j int) bool {
		if tot.Violations[i].key() != tot.Violations[j].key() {
			return tot.Violations[i].key() < tot.Violations[j].key()
		}
		return tot.Violations[i].RunIndex < tot.Violations[j].RunIndex
	})
	seen := map[string]bool{}
	knownObserved := map[string]int64{}
	var reported []string
	var unrepro []string
	maxReport := 5
	if v, err := strconv.Atoi(os.Getenv("VERIF_MAX_REPORT")); err == nil && v > 0 {
		maxReport = v
	}
	exit := 0
	os.MkdirAll(filepath.Join(verif, "replays"), 0o755)
	freshReplay := func(file string) (int, string) {
		rc := exec.Command(bin, "-mode", "replay", "-file", file)
		rc.Env = append(os.Environ(), "GOMAXPROCS=1", "GOMEMLIMIT=3GiB")
		rout, rerr := rc.CombinedOutput()
		code := 0
		if ee, ok := rerr.(*exec.ExitError); ok {
			code = ee.ExitCode()
		} else if rerr != nil {
			code = 2
		}
		return code, string(rout)
	}
	minStart := time.Now()
	for i := range tot.Violations {
		v := &tot.Violations[i]
		if seen[v.key()] {
			continue
		}
		seen[v.key()] = true
		if k := matchKnown(v); k != nil {
			knownObserved[k.ID] = tot.ViolCounts[v.key()]
			continue
		}
		if len(reported) >= maxReport {
			continue
		}
		// Up to three recorded samples of the class: raw replay file -> minimise -> replay in a
		// fresh process; if the minimised file does not reproduce there, the raw file is tried.
		// (A sample can depend on library state left behind by earlier runs of its worker
		// process; such a sample does not reproduce alone and the next one is taken.)
		done := false
		var lastOut string
		for j := i; j < len(tot.Violations) && !done; j++ {
			c := &tot.Violations[j]
			if c.key() != v.key() {
				break
			}
			raw := filepath.Join(wdir, fmt.Sprintf("raw-%d.json", j))
			rf := map[string]any{"property": prop, "run_seed": c.RunSeed, "tree": treeID(repo), "scenario": c.Scenario, "decisions": c.Trace, "history": c.History,
				"violation": map[string]any{"property": c.Property, "oracle": c.Oracle, "class": c.Class, "site": c.Site, "detail": c.Detail, "run_seed": c.RunSeed, "run_index": c.RunIndex},
				"hash":      c.Hash}
			rb, _ := json.Marshal(rf)
			os.WriteFile(raw, rb, 0o644)
			name := fmt.Sprintf("%s-%s-%s-seed%d-run%d.json", prop, sanitize(c.Oracle), sanitize(c.Class+"-"+c.Site), seed, c.RunIndex)
			final := filepath.Join(verif, "replays", name)
			// Minimisation is a courtesy with a budget per invocation (8 minutes in all): a check
			// that found many classes on long scenarios once spent over half an hour shrinking
			// them. Beyond the budget the raw file - which must still reproduce in a fresh
			// process - is reported.
			var mout []byte
			merr := fmt.Errorf("minimisation budget of this invocation used up")
			if time.Since(minStart) < 8*time.Minute {
				// hard limit per minimiser process: its own deadline is only looked at between
				// candidates, and one candidate of a 66 000-message scenario can take minutes
				mctx, mcancel := context.WithTimeout(context.Background(), 4*time.Minute)
				mc := exec.CommandContext(mctx, bin, "-mode", "minimize", "-file", raw, "-out", final)
				mc.Env = append(os.Environ(), "GOMAXPROCS=1", "GOMEMLIMIT=3GiB")
				mout, merr = mc.CombinedOutput()
				mcancel()
			}
			minimised := merr == nil
			if minimised {
				fmt.Printf("vcheck: %s", mout)
				code, out := freshReplay(final)
				lastOut = out
				if code != 1 {
					minimised = false
				}
			} else {
				fmt.Fprintf(os.Stderr, "vcheck: minimisation of %s (run %d) failed (%v): %s\n", c.key(), c.RunIndex, merr, mout)
			}
			if !minimised {
				os.WriteFile(final, rb, 0o644)
				code, out := freshReplay(final)
				lastOut = out
				if code != 1 {
					os.Remove(final)
					fmt.Fprintf(os.Stderr, "vcheck: sample run %d of %s does not reproduce alone in a fresh process (exit %d)\n", c.RunIndex, c.key(), code)
					continue
				}
				fmt.Printf("vcheck: reporting the unminimised replay file for %s\n", c.key())
			}
			fmt.Printf("vcheck: violation oracle=%s class=%s site=%s seed=%d run=%d (seen in %d runs)\n        %s\n", c.Oracle, c.Class, c.Site, c.RunSeed, c.RunIndex, tot.ViolCounts[c.key()], c.Detail)
			fmt.Printf("VIOLATION property=%s replay=%s\n", prop, final)
			reported = append(reported, final)
			exit = 1
			done = true
		}
		if !done {
			fmt.Fprintf(os.Stderr, "vcheck: candidate violation %s did not reproduce from any of its replay files in a fresh process — machinery trouble, not reported as a violation\n%s\n", v.key(), lastOut)
			unrepro = append(unrepro, v.key())
		}
	}
	if len(unrepro) > 0 && exit == 0 {
		cleanup()
		return 2
	}
	if workerTrouble != "" {
		if exit == 0 {
			fmt.Fprintf(os.Stderr, "vcheck: a worker process failed (%s) and no violation was confirmed\n", workerTrouble)
			cleanup()
			return 2
		}
		fmt.Printf("vcheck: note: a worker process failed (%s); the reported violations reproduced from their replay files in a fresh process\n", workerTrouble)
	}
	if detMismatch != "" {
		if exit == 0 {
			fmt.Fprintf(os.Stderr, "vcheck: DETERMINISM SELF-CHECK FAILED: %s and no violation was found (machinery trouble, or the code under test behaves nondeterministically)\n", detMismatch)
			cleanup()
			return 2
		}
		fmt.Printf("vcheck: note: the determinism self-check saw differing digests (%s); the reported violations reproduced from their replay files in a fresh process\n", detMismatch)
	}
	for _, k := range known {
		if k.Status == "open" && k.Property == prop {
			fmt.Printf("KNOWN-FINDING: property=%s %s: %s (observed in %d of %d runs of this invocation)\n", prop, k.ID, k.What, knownObserved[k.ID], tot.Runs)
		}
	}

	// evidence
	wall := time.Since(start).Seconds()
	distinct := tot.NontrivTraces.estimate()
	if distinct > int64(tot.Nontrivial) {
		distinct = int64(tot.Nontrivial)
	}
	cov := map[string]any{
		"evaluations":           tot.Runs,
		"distinct_nontrivial":   distinct,
		"rule":                  pc.Rule,
		"samples":               tot.Samples,
		"nontrivial_runs":       tot.Nontrivial,
		"scheduler_steps":       tot.Steps,
		"simulated_time_s":      float64(tot.SimTimeNS) / 1e9,
		"runs_per_hour":         int64(float64(tot.Runs) / maxNonZero(maxWall) * 3600),
		"seeds_per_hour":        int64(float64(tot.Runs) / maxNonZero(maxWall) * 3600),
		"worker_processes":      workers,
		"faults_fired":          tot.Faults,
		"probes":                tot.Probes,
		"strategies":            tot.Strategies,
		"config_classes":        tot.Classes,
		"end_kinds":             tot.EndKinds,
		"maxima":                tot.Maxima,
		"abstract_states":       tot.States.estimate(),
		"abstract_transitions":  tot.Transitions.estimate(),
		"distinct_traces":       tot.Traces.estimate(),
		"distinct_measure":      measureOf(pc, "abstract state = (len of pool.Empty, pool.Full, Inbound, Outbound, Error, Shutdown, parserShutdown; multiset of (task class, gate kind, gate site) over all tasks; failure seen); transitions = (state, state', class of released task); counts above 16384 are k-minimum-values estimates"),
		"determinism_selfcheck": map[string]any{"runs_compared": detChecked, "processes": 2, "gomaxprocs": []int{4, 1}, "mismatch": detMismatch},
		"components":            componentsOf(pc),
		"instrumentation":       res.Report.Counts,
		"instrumenter_validated_by_repository_tests": instrValidated,
		"known_findings_observed":                    knownObserved,
		"violation_classes":                          tot.ViolCounts,
		"replays":                                    reported,
		"tree":                                       treeID(repo),
	}
	if len(tot.SiteHits) > 0 {
		unreached := []string{}
		reached := 0
		for k, n := range tot.SiteHits {
			if prop == "C08" && !strings.HasPrefix(k, "protocol.") {
				continue // C08 is about the packet-header decoders
			}
			if n == 0 {
				unreached = append(unreached, k)
			} else {
				reached++
			}
		}
		sort.Strings(unreached)
		if prop == "C11" {
			// the outbound property does not depend on decoder reach
		} else if pc.Harness == "hstream" {
			cov["decoders_reached"] = reached
			cov["unreached_decoders"] = unreached
		} else {
			cov["shared_state_sites_exercised"] = reached
		}
	}
	ev := map[string]any{
		"property_id": prop, "tier": tier, "seed": seed, "level": pc.Level, "coverage": cov,
		"assumptions": pc.Assume, "wall_s": wall, "violations": len(reported),
	}
	eb, _ := json.MarshalIndent(ev, "", " ")
	evDir := filepath.Join(verif, "evidence")
	if d := os.Getenv("VERIF_EVIDENCE_DIR"); d != "" {
		evDir = d // sensitivity runs against seeded changes must not overwrite the committed evidence
	}
	os.MkdirAll(evDir, 0o755)
	if err := os.WriteFile(filepath.Join(evDir, prop+".json"), eb, 0o644); err != nil {
		fmt.Fprintf(os.Stderr, "vcheck: %v\n", err)
		cleanup()
		return 2
	}
	fmt.Printf("vcheck: %d runs (%d non-trivial, ~%d distinct), %d steps, %.1fs simulated, %d abstract states, wall %.1fs, exit %d\n",
		tot.Runs, tot.Nontrivial, distinct, tot.Steps, float64(tot.SimTimeNS)/1e9, tot.States.estimate(), wall, exit)
	cleanup()
	if len(tot.Samples) == 0 {
		fmt.Fprintln(os.Stderr, "vcheck: no sample run was recorded (evidence would be invalid)")
		return 2
	}
	if tot.Runs == 0 {
		fmt.Fprintln(os.Stderr, "vcheck: no runs executed")
		return 2
	}
	return exit
}

func measureOf(pc propConf, def string) string {
	if pc.Measure != "" {
		return pc.Measure
	}
	return def
}

func componentsOf(pc propConf) map[string]any {
	if pc.Real != nil {
		return map[string]any{"real": pc.Real, "stub": pc.Stub}
	}
	return map[string]any{
		"real": []string{"util/stream.go (MessageStream, BufferPool: reader, 25 parsers, writer, shutdown, drain goroutines)", "util/util.go", "openflow13.Parse and every decoder it reaches", "common", "protocol", "bytes.Buffer", "logrus", "Go runtime channels and goroutines"},
		"stub": []string{"net.Conn (SimConn)", "peer switch (byte script, failures, write sink)", "controller application (consumer, error watcher, producers, shutdown request)", "choice of next goroutine and select arm (seeded strategy)", "clock (discrete-event)", "process exit (logrus ExitFunc)"},
	}
}

func maxNonZero(f float64) float64 {
	if f <= 0 {
		return 1
	}
	return f
}

func sanitize(s string) string {
	var b strings.Builder
	for _, r := range s {
		if (r >= 'a' && r <= 'z') || (r >= 'A' && r <= 'Z') || (r >= '0' && r <= '9') || r == '-' {
			b.WriteRune(r)
		} else {
			b.WriteByte('_')
		}
	}
	if b.Len() > 40 {
		return b.String()[:40]
	}
	return b.String()
}
