package main

import (
	"flag"
	"fmt"
	"os"

	"verif/build"
)

func main() {
	prepare := flag.String("prepare", "", "dev: only assemble and build the instrumented scratch copy into this directory")
	repo := flag.String("repo", "/repo", "repository working tree")
	verif := flag.String("verif", "/verif", "verification directory")
	flag.Parse()
	if *prepare != "" {
		res, err := build.Prepare(*repo, *verif, *prepare, flag.Args(), os.Stderr)
		if err != nil {
			fmt.Fprintln(os.Stderr, "vcheck:", err)
			os.Exit(2)
		}
		fmt.Println(res.Scratch)
		return
	}
}
